"""C20 -- typed reads return exactly the requested count or an error; typed methods never panic."""
from runner import Prop
from vlib import Case
import mb, cligen


class PROP(Prop):
    id = "C20"
    profiles = ["debug", "release"]
    rule = ("every typed method x replies of the matching function code whose item count / echoed fields are smaller than, equal to, "
            "larger than requested (incl. 0, 1, byte-boundary +-1, maximal), each echoed field of a write reply perturbed on its own, plus exception replies; every typed method x replies of every OTHER kind (all response variants, the serial-line codes 0x07/0x0B/0x0C/0x18, exceptions of other functions, custom codes), whole and split at every offset; the matching reply cut short at every offset and followed by end of stream or a read error; TCP and RTU; debug and release. "
            "non-trivial = reply count or echo differs from the request")

    def cases(self, rng, tier):
        cs = []
        n = 1 if tier == "quick" else 6
        for prof in self.profiles:
            for proto in ("tcp", "rtu"):
                for rep in range(n):
                    for k in ("RC", "RDI"):
                        for q in [0, 1, 7, 8, 9, 12, 16, 17, 100, 2000, 2008, 2009, 65535]:
                            for nb in sorted({0, 1, 2, (q + 7) // 8, max(0, (q + 7) // 8 - 1), (q + 7) // 8 + 1, 251}):
                                if nb > 251:
                                    continue
                                req = (k, mb.rnd_word(rng), q)
                                bits = [rng.random() < 0.5 for _ in range(nb * 8)]
                                self.add(cs, proto, prof, req, (k, bits), rng, {"q": q, "have": nb * 8})
                    for k in ("RIR", "RHR", "RWMR"):
                        for q in [0, 1, 2, 3, 60, 124, 125, 126, 65535]:
                            for nw in sorted({0, 1, q, max(0, q - 1), q + 1, 125}):
                                if nw > 125:
                                    continue
                                req = (k, mb.rnd_word(rng), q) if k != "RWMR" else (k, mb.rnd_word(rng), q, mb.rnd_word(rng), [mb.rnd_word(rng) for _ in range(rng.randrange(0, 4))])
                                ws = [mb.rnd_word(rng) for _ in range(nw)]
                                self.add(cs, proto, prof, req, (k, ws), rng, {"q": q, "have": nw})
                    # writes: echo equal / different address / different value or count
                    for _ in range(12):
                        a, v = mb.rnd_word(rng), mb.rnd_word(rng)
                        for da, dv in ((0, 0), (1, 0), (0, 1), (1, 1)):
                            a2, v2 = (a + da) & 0xFFFF, (v + dv) & 0xFFFF
                            self.add(cs, proto, prof, ("WSR", a, v), ("WSR", a2, v2), rng, {"echo": (da, dv) != (0, 0)})
                            b = rng.random() < 0.5
                            self.add(cs, proto, prof, ("WSC", a, b), ("WSC", a2, b ^ bool(dv)), rng, {"echo": (da, dv) != (0, 0)})
                            coils = [rng.random() < 0.5 for _ in range(rng.randrange(0, 30))]
                            self.add(cs, proto, prof, ("WMC", a, coils), ("WMC", a2, (len(coils) + dv) & 0xFFFF), rng, {"echo": (da, dv) != (0, 0)})
                            ws = [mb.rnd_word(rng) for _ in range(rng.randrange(0, 10))]
                            self.add(cs, proto, prof, ("WMR", a, ws), ("WMR", a2, (len(ws) + dv) & 0xFFFF), rng, {"echo": (da, dv) != (0, 0)})
                            m1, m2 = mb.rnd_word(rng), mb.rnd_word(rng)
                            self.add(cs, proto, prof, ("MWR", a, m1, m2), ("MWR", a2, (m1 + dv) & 0xFFFF, m2), rng, {"echo": (da, dv) != (0, 0)})
                            # each echoed field perturbed on its own (one bit, +1, swapped masks)
                            for f3 in ((a, m1, m2 ^ (1 << rng.randrange(16))), (a, m1, (m2 + 1) & 0xFFFF), (a, m2, m1), (a ^ (1 << rng.randrange(16)), m1, m2), (a, m1 ^ (1 << rng.randrange(16)), m2)):
                                self.add(cs, proto, prof, ("MWR", a, m1, m2), ("MWR",) + f3, rng, {"echo": f3 != (a, m1, m2)})
                            self.add(cs, proto, prof, ("WSR", a, v), ("WSR", a ^ (1 << rng.randrange(16)), v), rng, {"echo": True})
                            self.add(cs, proto, prof, ("WSR", a, v), ("WSR", a, v ^ (1 << rng.randrange(16))), rng, {"echo": True})
                            self.add(cs, proto, prof, ("WMR", a, ws), ("WMR", a ^ (1 << rng.randrange(16)), len(ws)), rng, {"echo": True})
                            self.add(cs, proto, prof, ("WMC", a, coils), ("WMC", a ^ (1 << rng.randrange(16)), len(coils)), rng, {"echo": True})
                # replies of a FOREIGN kind (every response variant, the serial-line codes, exceptions of other functions), whole and
                # split at every offset: the typed method returns a result (an error), never panics, never reports success
                typed_reqs = [("RC", 1, 3), ("RDI", 1, 3), ("RHR", 1, 2), ("RIR", 1, 2), ("RWMR", 1, 2, 3, [4]), ("WSC", 1, True), ("WSR", 1, 2),
                              ("WMC", 1, [True, False]), ("WMR", 1, [2, 3]), ("MWR", 1, 2, 3)]
                foreign = [mb.spec_rsp_pdu(r) for r in [("RC", [True] * 8), ("RDI", [False] * 8), ("RHR", [1, 2]), ("RIR", [1, 2]), ("RWMR", [1, 2]), ("WSC", 1, True),
                                                        ("WSR", 1, 2), ("WMC", 1, 2), ("WMR", 1, 2), ("MWR", 1, 2, 3), ("RSI", 1, True, b"ab")]]
                foreign += [bytes([0x18, 0, 4, 0, 1, 0xAA, 0xBB]), bytes([0x18, 0, 0]), bytes([0x07, 0x55]), bytes([0x0B, 0, 0, 0, 9]), bytes([0x0C, 2, 1, 2]),
                            bytes([0x81, 2]), bytes([0x98, 1]), bytes([0xAB, 4])]
                if proto == "tcp":
                    foreign += [bytes([0x41, 1, 2, 3]), bytes([0x2B, 0x0E]), bytes([0xFF, 1]), b"", bytes([0x03]), bytes([0x83]), bytes([0x01, 0x02])]
                # the reply of the matching kind, complete and well-formed, followed by surplus bytes inside the same frame (Modbus TCP: the
                # MBAP length covers them; RTU framing cannot deliver such a PDU): a result, never a panic, never success
                if proto == "tcp":
                    for req in typed_reqs:
                        own = mb.spec_rsp_pdu(mb.matching_rsp(rng, req))
                        for extra in (b"\x00", b"\xbe\xef", bytes(5)):
                            slave = rng.randrange(1, 248)
                            fr = cligen.frame(proto, 0, slave, own + extra)
                            cs.append(Case(cligen.cli_line(proto, slave, [cligen.call_op(req, R="d" + fr.hex(), typed=True)]),
                                           {"foreign": True, "req": mb.show_req(req), "pdu": (own + extra).hex(), "split": 0}, prof))
                # the matching reply with its PDU cut short INSIDE a complete frame (the MBAP length covers exactly what is there; the byte count
                # still announces more) or announcing one byte more than it carries: a result (an error), never a panic, never success
                if proto == "tcp":
                    for req in typed_reqs:
                        own = mb.spec_rsp_pdu(mb.matching_rsp(rng, req))
                        shorts = [own[:-k] for k in (1, 2, 3) if len(own) > k + 1]
                        if req[0] in ("RC", "RDI", "RHR", "RIR", "RWMR"):
                            shorts.append(bytes([own[0], (own[1] + 1) & 0xFF]) + own[2:])
                        for pdu in shorts:
                            slave = rng.randrange(1, 248)
                            fr = cligen.frame(proto, 0, slave, pdu)
                            cs.append(Case(cligen.cli_line(proto, slave, [cligen.call_op(req, R="d" + fr.hex(), typed=True)]),
                                           {"foreign": True, "req": mb.show_req(req), "pdu": pdu.hex() + " (its own reply, PDU cut short inside the frame)", "split": 0}, prof))
                # a reply that stops short: the first `cut` bytes of the matching reply arrive (in one piece or byte by byte), then the
                # server closes or the connection fails -- a result (an error), never a panic, never success
                for req in typed_reqs:
                    own = mb.spec_rsp_pdu(mb.matching_rsp(rng, req))
                    slave = rng.randrange(1, 248)
                    fr = cligen.frame(proto, 0, slave, own)
                    for cut in range(len(fr)):
                        for tail in ("eof", "e:" + rng.choice(cligen.KINDS)):
                            parts = [fr[:cut]] if cut and rng.random() < 0.6 else [fr[i:i + 1] for i in range(cut)]
                            cs.append(Case(cligen.cli_line(proto, slave, [cligen.call_op(req, R=mb.rscript(parts, [tail]), typed=True)]),
                                           {"foreign": True, "req": mb.show_req(req), "pdu": "(first %d bytes of its own reply, then %s)" % (cut, tail), "split": cut}, prof))
                for req in typed_reqs:
                    for pdu in foreign:
                        if len(pdu) > 1 and pdu[0] == mb.req_fc(req):
                            continue
                        slave = rng.randrange(1, 248)
                        fr = cligen.frame(proto, 0, slave, pdu)
                        splits = [[fr]] + ([[fr[:i], fr[i:]] for i in range(1, len(fr))])
                        for parts in splits:
                            cs.append(Case(cligen.cli_line(proto, slave, [cligen.call_op(req, R=mb.rscript(parts), typed=True)]),
                                           {"foreign": True, "req": mb.show_req(req), "pdu": pdu.hex(), "split": len(parts[0])}, prof))
        # an exception reply of ANY code -- also the ones that sound like success (Acknowledge 5) or "try again" (Busy 6) -- is returned as
        # that exception by every typed method: never as success
        for proto in ("tcp", "rtu"):
            for req in [("RC", 1, 3), ("RDI", 1, 3), ("RHR", 1, 2), ("RIR", 1, 2), ("RWMR", 1, 2, 3, [4]), ("WSC", 1, True), ("WSR", 1, 2), ("WMC", 1, [True, False]), ("WMR", 1, [2, 3]), ("MWR", 1, 2, 3)]:
                for code in list(range(1, 12)) + [rng.randrange(12, 256)]:
                    slave = rng.randrange(1, 248)
                    fr = cligen.frame(proto, 0, slave, cligen.exc_pdu(mb.req_fc(req), code))
                    cs.append(Case(cligen.cli_line(proto, slave, [cligen.call_op(req, R="d" + fr.hex(), typed=True)]),
                                   {"req": mb.show_req(req), "rsp": mb.show_rsp(mb.matching_rsp(rng, req)), "exc": code, "q": 0, "have": 1}, "debug"))
        # one TCP client object through more than 65 536 typed calls: every one returns exactly the requested items
        slave, ops = rng.randrange(1, 248), []
        for j in range(65536 + 20):
            ops.append(cligen.call_op(("RHR", j & 0xFFFF, 1), R="d" + cligen.frame("tcp", j & 0xFFFF, slave, bytes([3, 2, (j >> 8) & 255, j & 255])).hex(), typed=True))
        cs.append(Case(cligen.cli_line("tcp", slave, ops), {"longlived": len(ops), "q": 0, "have": 0}, "debug"))
        # the typed methods of the BLOCKING client, under no timeout, an ordinary one and the largest ones a Duration can hold: a result, never a panic
        for tmo in ("-", "1000", "max"):
            for setmax in (False, True):
                for req in [("RC", 1, 3), ("RHR", 1, 2), ("RIR", 1, 2), ("WSR", 1, 2), ("WMR", 1, [2, 3])]:
                    rsp = mb.matching_rsp(rng, req)
                    fr = cligen.frame("tcp", 0, 255, mb.spec_rsp_pdu(rsp))
                    ops = (["timeout max"] if setmax else []) + ["typed %s r%s" % (mb.show_req(req), fr.hex())]
                    # for the model a timeout that cannot fire is no timeout
                    mline = "SYNC tcp %s - %s" % ("-" if tmo == "max" else tmo, " ; ".join("timeout -" if o == "timeout max" else o for o in ops))
                    cs.append(Case("SYNC tcp %s - %s" % (tmo, " ; ".join(ops)), {"sync": True, "req": mb.show_req(req), "model_line": mline}, "debug"))
        return cs

    def add(self, cs, proto, prof, req, rsp, rng, meta):
        slave = rng.randrange(256)
        pdu = mb.spec_rsp_pdu(rsp)
        if len(pdu) > 253:
            return
        fr = cligen.frame(proto, 0, slave, pdu)
        line = cligen.cli_line(proto, slave, [cligen.call_op(req, R="d" + fr.hex(), typed=True)])
        m = dict(meta, req=mb.show_req(req), rsp=mb.show_rsp(rsp))
        cs.append(Case(line, m, prof))
        # the same request answered by an exception
        if rng.random() < 0.1:
            fr = cligen.frame(proto, 0, slave, cligen.exc_pdu(mb.req_fc(req), 2))
            cs.append(Case(cligen.cli_line(proto, slave, [cligen.call_op(req, R="d" + fr.hex(), typed=True)]), dict(m, exc=2), prof))

    def oracle(self, c):
        r, _ = cligen.res_and_w(c.impl or "")
        if "PANIC" in r or "CRASH" in r or "NORESULT" in r:
            return "typed method panicked: %s" % r[:60]
        if c.meta.get("longlived"):
            rs = [cligen.res_and_w(x)[0] for x in cligen.split_results(c.impl)]
            for j, got in enumerate(rs + ["<missing>"] * (c.meta["longlived"] - len(rs))):
                if got != "W:%d" % (j & 0xFFFF):
                    return "typed call no. %d on one client object returned %s, the reply carried the one word %d" % (j + 1, got[:40], j & 0xFFFF)
            return None
        if c.meta.get("sync"):
            first = [x for x in (c.impl or "").split(" ; ") if not x.startswith("ok")][0] if c.impl else ""
            return None if first[:2] in ("B:", "W:") or first.startswith("U") else "blocking typed method on a well-behaved server: %s" % (c.impl or "")[:80]
        if c.meta.get("foreign"):
            if r == "U" or r.startswith("B:") or r.startswith("W:"):
                return "typed %s reported success (%s) for a reply of another kind (PDU %s)" % (c.meta["req"][:40], r[:40], c.meta["pdu"])
            return None
        req = mb.parse_req(c.meta["req"]); rsp = mb.parse_rsp(c.meta["rsp"])
        if "exc" in c.meta:
            return None if r == "EX:%d" % c.meta["exc"] else "exception reply not returned as inner error: %s" % r[:60]
        k = req[0]
        if k in ("RC", "RDI"):
            if r.startswith("B:"):
                got = mb.unbits(r[2:])
                if len(got) != req[2]:
                    return "typed bit read returned %d items, %d requested" % (len(got), req[2])
                if got != rsp[1][:req[2]]:
                    return "typed bit read returned items that are not the reply's prefix"
            elif len(rsp[1]) >= req[2] and not r.startswith("T:"):
                return "unexpected result %s" % r[:60]
            return None
        if k in ("RIR", "RHR", "RWMR"):
            if r.startswith("W:"):
                got = mb.unwords(r[2:])
                if len(got) != req[2]:
                    return "typed register read returned %d items, %d requested" % (len(got), req[2])
                if got != rsp[1]:
                    return "typed register read returned other items than the reply's"
            elif len(rsp[1]) == req[2]:
                return "exact-count reply not returned: %s" % r[:60]
            return None
        # writes: success only for the reply of its own kind -- the one that echoes the request (address and value / masks / count)
        echo = {"WSR": lambda: rsp[1:] == req[1:], "WSC": lambda: rsp[1:] == req[1:], "MWR": lambda: rsp[1:] == req[1:],
                "WMC": lambda: rsp[1:] == (req[1], len(req[2])), "WMR": lambda: rsp[1:] == (req[1], len(req[2]))}
        if r == "U" and k in echo and rsp[0] == k and not echo[k]():
            return "typed write %s reported success for the reply %s, which does not echo it" % (c.meta["req"][:50], c.meta["rsp"][:50])
        if k in echo and rsp[0] == k and echo[k]() and r != "U":
            return "typed write %s failed (%s) on its own echo" % (c.meta["req"][:50], r[:40])
        return None if r == "U" or r.startswith("T:") else "typed write: unexpected %s" % r[:60]

    def project(self, case, s):
        return (s or "").replace("ok t=max", "ok t=-") if case.meta.get("sync") else s

    def nontrivial(self, c):
        return c.meta.get("sync", False) or c.meta.get("foreign", False) or c.meta.get("echo", False) or c.meta.get("q") != c.meta.get("have")
