"""C01 -- requests reach the server exactly as issued, in Modbus wire format."""
from e2e import E2E, canon_req, st1_obs
from vlib import Case
import mb, cligen


class PROP(E2E):
    id = "C01"
    rule = ("every request variant (payload lengths 0, 1, limit-1, limit; field values at 0/1/0x7FFF/0x8000/0xFFFF), raw custom requests for "
            "every code the framing carries, generic call and typed methods, all 256 slave ids incl. defaults and set_slave histories, written "
            "by the real TCP/RTU client under several write granularities, then fed under random chunkings (all compositions for short frames) "
            "to the real TCP and RTU-over-TCP servers, and pipelined behind an answered request to the real serial RTU server on a pty; the real client talking "
            "directly to the real server of its transport over loopback sockets and a pty.  Oracle: bytes written == independent spec frame (once); service invoked exactly once "
            "with the same slave id and an equal request.  non-trivial = distinct (request, slave, chunking)")

    def scenarios(self, rng, tier):
        n = 900 if tier == "quick" else 9000
        for proto in ("tcp", "rtu"):
            for s in range(256):
                req = mb.rnd_req(rng, rng.choice(["RC", "RHR", "WSC", "WSR", "MWR", "RSI", "WMR", "WMC"]))
                if mb.spec_req_size(req) > 253:
                    continue
                sets = [] if rng.random() < 0.5 else [rng.randrange(256) for _ in range(rng.randrange(1, 3))] + [s]
                yield dict(proto=proto, slave=s if not sets else rng.randrange(256), setslaves=sets, req=req, reply=("none",), allcomp=False)
            # boundary lengths
            for req in [("WMC", 1, [True] * 1976), ("WMC", 1, [False, True] * 987 + [True]), ("WMC", 2, []), ("WMR", 3, [0xABCD] * 123), ("WMR", 3, []),
                        ("RWMR", 1, 2, 3, [0x1234] * 121), ("RWMR", 1, 2, 3, []), ("CU", 0x41, bytes(range(252))), ("CU", 0x41, b""),
                        ("CU", 0x07, b""), ("CU", 0x0B, b""), ("CU", 0x0C, b""), ("CU", 0x18, b"\x12\x34"), ("CU", 0x7F, b"\x00"), ("CU", 0x00, b"\x01")]:
                if proto == "rtu" and not cligen.rtu_supported_req(req):
                    continue
                yield dict(proto=proto, slave=rng.randrange(256), req=req, reply=("none",))
            # every custom function code < 0x80 over TCP
            if proto == "tcp":
                for fc in range(0x80):
                    yield dict(proto=proto, slave=rng.randrange(256), req=("CU", fc, bytes(rng.randrange(256) for _ in range(rng.randrange(0, 6)))), reply=("none",))
            for _ in range(n):
                req = mb.rnd_req(rng)
                if mb.spec_req_size(req) > 253 or (proto == "rtu" and not cligen.rtu_supported_req(req)):
                    continue
                typed = req[0] not in ("CU", "RSI") and rng.random() < 0.4
                W = rng.choice(["-", "-", "a1,a1,a1,a1,a1", "a3,p,a2", "p,a7,p"])
                yield dict(proto=proto, slave=rng.randrange(256), req=req, reply=("none",), typed=typed, W=W,
                           allcomp=(rng.random() < 0.03 and mb.spec_req_size(req) <= 5))

            # the context is used again after an earlier call failed in the middle of writing (or was abandoned there): the
            # new request must still go out as its own spec frame, after whatever the earlier call left in the write buffer
            for _ in range(n // 6):
                req = mb.rnd_req(rng)
                if mb.spec_req_size(req) > 253 or (proto == "rtu" and not cligen.rtu_supported_req(req)):
                    continue
                pre, pre_frames = [], []
                slave = rng.randrange(256)
                for j in range(rng.randrange(1, 3)):
                    preq = mb.rnd_req(rng, rng.choice(["RC", "RHR", "WSR", "WSC", "MWR", "RSI"]))
                    k = rng.randrange(0, len(cligen.frame(proto, 0, 0, mb.spec_req_pdu(preq))))     # the fault hits while this frame is being written
                    mode = rng.choice(["werr", "zero", "abandon"])
                    acc = ("a%d," % k) if k else ""
                    pre.append(cligen.call_op(preq, W=acc + {"werr": "e:TimedOut", "zero": "z", "abandon": "p"}[mode], drop="0" if mode == "abandon" else "-"))
                    pre_frames.append(cligen.frame(proto, j, slave, mb.spec_req_pdu(preq)).hex())
                yield dict(proto=proto, slave=slave, req=req, reply=("none",), pre=pre, pre_frames=pre_frames)
            # ... or after earlier requests were refused by the encoder (PDU > 253 bytes): those transmit nothing and must leave
            # nothing behind, so the new request goes out as exactly its spec frame
            for _ in range(n // 10):
                req = mb.rnd_req(rng)
                if mb.spec_req_size(req) > 253 or (proto == "rtu" and not cligen.rtu_supported_req(req)):
                    continue
                pre = []
                for _ in range(rng.randrange(1, 3)):
                    big = rng.choice([("WMR", 7, [1] * rng.randrange(124, 140)), ("WMC", 7, [True] * rng.randrange(1977, 2100)),
                                      ("CU", 0x41, bytes(rng.randrange(253, 300))), ("RWMR", 1, 1, 2, [5] * rng.randrange(122, 130))])
                    pre.append(cligen.call_op(big, typed=(big[0] != "CU" and rng.random() < 0.5)))
                yield dict(proto=proto, slave=rng.randrange(256), req=req, reply=("none",), pre=pre, pre_clean=True)

    def cases(self, rng, tier):
        cs = super().cases(rng, tier)
        # one client polling several devices: successful calls with set_slave between them (the most ordinary gateway use) -- every
        # request goes out under the id selected at that moment
        poll = []
        for _ in range(150 if tier == "quick" else 1500):
            proto = rng.choice(["tcp", "rtu"])
            slave = slave0 = rng.randrange(256)
            ops, want = [], []
            for i in range(rng.randrange(2, 6)):
                if rng.random() < 0.6:
                    slave = rng.choice([rng.randrange(256), slave0, 0, 255])
                    ops.append("slave %d" % slave)
                req = mb.rnd_req(rng, rng.choice(["RHR", "RC", "WSR", "WSC", "RIR", "MWR"]))
                rsp = mb.matching_rsp(rng, req)
                if mb.spec_rsp_size(rsp) > 253:
                    req, rsp = ("RHR", 1, 1), ("RHR", [7])
                nlast = i == 0 or rng.random() < 0.75
                if not nlast and mb.spec_req_size(req) > 3:
                    # the transport interrupts this write once (EINTR) after a few bytes: the call fails, the rest of the frame goes out with
                    # the next call -- every request still reaches the wire exactly once
                    ops.append(cligen.call_op(req, W="a%d,e:Interrupted" % rng.randrange(1, 4), typed=rng.random() < 0.4))
                else:
                    ops.append(cligen.call_op(req, R="d" + cligen.frame(proto, i, slave, mb.spec_rsp_pdu(rsp)).hex(), typed=rng.random() < 0.4))
                want.append(cligen.frame(proto, i, slave, mb.spec_req_pdu(req)).hex())
            poll.append(Case(cligen.cli_line(proto, slave0, ops), {"stage": "poll", "want": want, "proto": proto}))
        step = max(1, len(cs) // (len(poll) + 1))
        for i, d in enumerate(poll):
            cs.insert(min(len(cs), (i + 1) * step + i), d)
        return cs

    def oracle(self, c):
        m = c.meta
        st = m.get("stage", 0)
        if "PANIC" in (c.impl or ""):
            return "panic"
        if st == "poll":
            ws = [cligen.res_and_w(x)[1].hex() for x in cligen.split_results(c.impl) if x != "ok"]
            got_all, want_all = "".join(ws), "".join(m["want"])
            if not want_all.startswith(got_all):
                pos, i = 0, 0
                for i, w in enumerate(m["want"]):
                    if got_all[pos:pos + len(w)] != w:
                        break
                    pos += len(w)
                return "polling several devices over one client: what went out from request %d on is %s..., the frame for that request under the id selected at that moment is %s" % (i + 1, got_all[pos:pos + 60], m["want"][i][:60])
            return None
        if st == "own":
            t = c.line.split(" ")
            want = "%s %s:%s" % (t[2], t[1], t[2])
            return None if c.impl == want else "into_owned changed the request: %s, want %s" % ((c.impl or "")[:80], want[:80])
        if st == "direct":
            obs = self.direct_obs(c)
            if len(obs) != len(m["ops"]):
                return "end-to-end run: %s" % (c.impl or "")[:100]
            for (res, seen), op in zip(obs, m["ops"]):
                cr = canon_req(mb.parse_req(op["req"]))
                want = ["C:%d:%s" % (m["slave"], mb.show_req(cr))]
                if seen != want:
                    return "real client -> real %s server: service saw %s for the issued %s (slave %d)" % (m["flavour"], [x[:60] for x in seen[:3]], op["req"][:60], m["slave"])
            return None
        req = mb.parse_req(m["req"])
        if st == 0:
            res, w = cligen.res_and_w(cligen.split_results(c.impl)[-1])
            want = cligen.frame(m["proto"], m.get("npre", 0), m["slave"], mb.spec_req_pdu(req))
            if m.get("npre") and not m.get("pre_clean") and m.get("pre_frames"):
                # what reached the transport over the client's lifetime: every earlier frame whole (its unsent rest goes out ahead of
                # the new request), then the new request's own spec frame -- exactly once each, in order
                total = b"".join(cligen.res_and_w(x)[1] for x in cligen.split_results(c.impl))
                want_total = bytes.fromhex("".join(m["pre_frames"])) + want
                if total != want_total:
                    return "after %d call(s) that failed while writing, the transport received %s over the client's lifetime; the requests' frames are %s" % (
                        m["npre"], total.hex()[:100], want_total.hex()[:100])
                return None
            if m.get("npre") and not m.get("pre_clean"):
                return None if w.endswith(want) else "after %d failed call(s) the client wrote ...%s for %s to slave %d; its spec frame is %s" % (
                    m["npre"], w.hex()[-80:], m["req"][:50], m["slave"], want.hex()[:80])
            return None if w == want else "client wrote %s for %s to slave %d; spec frame is %s" % (w.hex()[:80], m["req"][:50], m["slave"], want.hex()[:80])
        if st == 1:
            cr = canon_req(req)
            calls, _ws = st1_obs(c)
            if cr is None:
                return None        # custom data that is malformed for a modelled code: C08's business
            want = "C:%d:%s" % (m["slave"], mb.show_req(cr))
            if calls != [want]:
                return "server delivered %s; issued %s" % ([x[:60] for x in calls[:3]], want[:70])
            return None
        return None

    def nontrivial(self, c):
        return True
