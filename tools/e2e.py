"""e2e -- three-stage end-to-end scenarios through the real client and the real servers:
stage 0: client call -> bytes written;  stage 1: those bytes, re-chunked, into a server whose
service answers -> service invocation + bytes written;  stage 2: those bytes, re-chunked, back into
the same client call -> result."""
from runner import Prop
from vlib import Case
import mb, cligen


def canon_req(req):
    """what a server makes of the wire bytes of `req` (raw custom with a modelled code = typed request)"""
    cl = mb.classify_req(mb.spec_req_pdu(req))
    return cl[1] if cl[0] == "accept" else None


def svc_token(reply):
    k = reply[0]
    if k == "rsp":
        return "r=" + mb.show_rsp(reply[1])
    if k == "exc":
        return "x=%d" % reply[1]
    if k == "excraw":
        return "y=%d" % reply[1]
    return "n"


class E2E(Prop):
    profiles = ["debug"]

    def scenarios(self, rng, tier):
        """yields dicts: proto, slave, setslaves(list), req, reply(('rsp',r)|('exc',c)|('excraw',c)|('none',)), typed(bool), allcomp(bool)"""
        return []

    def cases(self, rng, tier):
        cs = []
        for sc in self.scenarios(rng, tier):
            ops = []
            slave = sc["slave"]
            for s in sc.get("setslaves", []):
                ops.append("slave %d" % s)
                slave = s
            sc["eff_slave"] = slave
            ops += sc.get("pre", [])
            ops.append(cligen.call_op(sc["req"], typed=sc.get("typed", False), W=sc.get("W", "-")))
            m = dict(stage=0, proto=sc["proto"], slave=slave, req=mb.show_req(sc["req"]), svc=svc_token(sc["reply"]),
                     typed=sc.get("typed", False), allcomp=sc.get("allcomp", False), first_slave=sc["slave"], nops=len(ops), npre=len(sc.get("pre", [])))
            cs.append(Case(cligen.cli_line(sc["proto"], sc["slave"], ops), m))
        return cs

    def followup(self, cases, rng, tier):
        out = []
        st = max((c.meta.get("stage", 0) for c in cases), default=0)
        for c in cases:
            m = c.meta
            if m.get("stage") != st:
                continue
            if st == 0:
                res, w = cligen.res_and_w(cligen.split_results(c.impl)[-1])
                if m.get("npre"):
                    # earlier calls left bytes in the write buffer: this call's own frame is the tail of what was transmitted
                    fl = len(cligen.frame(m["proto"], 0, m["slave"], mb.spec_req_pdu(mb.parse_req(m["req"]))))
                    w = w[-fl:]
                if len(w) == 0:
                    continue
                chunkings = list(mb.all_compositions(w)) if (m["allcomp"] and len(w) <= 11) else mb.chunkings(w, rng, 2) + [[w]]
                for parts in chunkings:
                    out.append(Case("SRV %s %s - - %s" % (m["proto"], mb.rscript(parts), m["svc"]), dict(m, stage=1, frame=w.hex(), nchunks=len(parts))))
            elif st == 1:
                if m.get("nchunks") != 1 and not m["allcomp"]:
                    pass
                ws = [t[2:] for t in (c.impl or "").split(",") if t.startswith("W:")]
                if len(ws) != 1:
                    continue
                if m.get("done2"):
                    continue
                w = bytes.fromhex(ws[0])
                chunkings = list(mb.all_compositions(w)) if (m["allcomp"] and len(w) <= 10 and m.get("nchunks") == 1) else ([mb.chunkings(w, rng, 1)[0]] if m.get("nchunks") != 1 else [[w]])
                for parts in chunkings:
                    op = cligen.call_op(m["req"], typed=m["typed"], R=mb.rscript(parts))
                    out.append(Case(cligen.cli_line(m["proto"], m["slave"], [op]), dict(m, stage=2, reply_frame=w.hex())))
        return out

    def distribution(self, cases):
        d = {}
        for c in cases:
            k = "stage%d_%s" % (c.meta.get("stage", 0), c.meta.get("proto"))
            d[k] = d.get(k, 0) + 1
        return d
