"""e2e -- three-stage end-to-end scenarios through the real client and the real servers:
stage 0: client call -> bytes written;  stage 1: those bytes, re-chunked, into a server whose
service answers -> service invocation + bytes written;  stage 2: those bytes, re-chunked, back into
the same client call -> result."""
from runner import Prop
from vlib import Case
import vlib
import mb, cligen

PREV_REQ = ("RHR", 4660, 1)          # an answered request in front of the studied one on the serial line (pipelined)
PREV_SLAVE = 0x55
PREV_RSP = ("RHR", [0xBEEF])


def canon_req(req):
    """what a server makes of the wire bytes of `req` (raw custom with a modelled code = typed request)"""
    cl = mb.classify_req(mb.spec_req_pdu(req))
    return cl[1] if cl[0] == "accept" else None


def svc_token(reply):
    k = reply[0]
    if k == "rsp":
        return "r=" + mb.show_rsp(reply[1])
    if k == "exc":
        return "x=%d" % reply[1]
    if k == "excraw":
        return "y=%d" % reply[1]
    return "n"


def expected_result(req, svc, typed):
    """what the caller must get for `req` when the service produced `svc` (None: another property's business)"""
    if svc.startswith("r="):
        rsp = mb.parse_rsp(svc[2:])
        if typed:
            k = req[0]
            if k in ("RC", "RDI"):
                if len(rsp[1]) >= req[2]:
                    return "B:" + mb.bits(mb.pad8(rsp[1])[:req[2]])
                return None     # fewer bits than requested: C20's business
            if k in ("RIR", "RHR", "RWMR"):
                if len(rsp[1]) != req[2]:
                    return None
                return "W:" + mb.words(rsp[1])
            return ("U", "T:InvalidData")
        if mb.rsp_fc(rsp) != mb.req_fc(req):
            return None         # the service did not answer *that* request (C06's business)
        return "OK:" + mb.show_rsp(mb.pad_rsp(rsp))
    return "EX:%d" % int(svc[2:])


def result_ok(res, want):
    if want is None:
        return True
    if isinstance(want, tuple):
        return res == want[0] or res.startswith(want[1])
    return res == want


TAIL_SLAVE = 77


def st1_obs(c):
    """(service invocations, reply frames) observed at the server stage; for the serial twin the pipelined
    predecessor and its reply are taken off (their absence is reported as such)"""
    r = c.impl or ""
    if c.meta.get("ser"):
        f = vlib.ser_norm(r).split("|")
        if len(f) != 3:
            return ["?" + r[:40]], ["?"]
        calls = [] if f[0] == "-" else f[0].split(",")
        w = "" if f[1] == "-" else f[1]
        prevcall = "C:%d:%s" % (PREV_SLAVE, mb.show_req(PREV_REQ))
        prevw = mb.rtu_frame(PREV_SLAVE, mb.spec_rsp_pdu(PREV_RSP)).hex()
        if calls[:1] == [prevcall]:
            calls = calls[1:]
        else:
            calls = ["<predecessor lost>"] + calls
        if w.startswith(prevw):
            w = w[len(prevw):]
        else:
            w = "<predecessor's reply lost>" + w
        return calls, ([w] if w else [])
    toks = r.split(",")
    calls = [t for t in toks if t.startswith("C:")]
    if c.meta.get("tail"):
        # the request under test was followed, in the same read, by a request the service declines and a fragment of a third
        tailcall = "C:%d:RC:7:1" % TAIL_SLAVE
        if calls[-1:] == [tailcall]:
            calls = calls[:-1]
        else:
            calls = calls + ["<the declined follower was not delivered>"]
    return calls, [t[2:] for t in toks if t.startswith("W:")]


class E2E(Prop):
    profiles = ["debug"]
    direct_reply_for_none = True

    def project(self, c, s):
        return vlib.ser_norm(s) if c.meta.get("ser") else s

    def direct_cases(self, scs, rng, tier):
        """the same scenarios through the real client talking to the real server of its transport (loopback sockets, pty)"""
        out = []
        pool = [sc for sc in scs if not sc.get("pre") and not sc.get("setslaves")]
        rng.shuffle(pool)
        pool = pool[: (240 if tier == "quick" else 3000)]
        i = 0
        while i < len(pool):
            n = rng.choice([1, 1, 2, 3])
            grp = [sc for sc in pool[i:i + n] if sc["proto"] == pool[i]["proto"]]
            i += n
            proto = grp[0]["proto"]
            slave = grp[0]["slave"] if rng.random() < 0.6 else rng.choice([0, 0, 1, 247, 248, 255])   # broadcast / boundary ids often
            ops, metas = [], []
            for sc in grp:
                reply = sc["reply"]
                cr = canon_req(sc["req"])
                if cr is None:
                    continue
                if reply[0] == "none":
                    reply = ("rsp", mb.matching_rsp(rng, cr)) if rng.random() < 0.7 else ("exc", rng.randrange(1, 12))
                if reply[0] == "rsp" and (mb.spec_rsp_size(reply[1]) > 253 or (proto == "rtu" and not cligen.rtu_supported_rsp_pdu(mb.spec_rsp_pdu(reply[1])))):
                    continue
                if reply[0] != "rsp" and proto == "rtu" and not (1 <= mb.req_fc(sc["req"]) <= 0x2B):
                    continue
                if reply[0] == "rsp" and mb.rsp_fc(reply[1]) != mb.req_fc(sc["req"]):
                    continue        # the client would (rightly) report a mismatch and the transports then differ in what is left unread
                typed = bool(sc.get("typed"))
                if typed and reply[0] == "rsp":
                    want = expected_result(sc["req"], svc_token(reply), True)
                    if want is None or isinstance(want, tuple):
                        typed = False
                ops.append("%s %s %s" % ("typed" if typed else "call", mb.show_req(sc["req"]), svc_token(reply)))
                metas.append(dict(req=mb.show_req(sc["req"]), svc=svc_token(reply), typed=typed))
            if not ops:
                continue
            flavour = proto if proto == "tcp" or rng.random() < 0.5 else "ser"
            line = "E2E %s %d %s" % (flavour, slave, " ; ".join(ops))
            m = dict(stage="direct", proto=proto, flavour=flavour, slave=slave, ops=metas)
            if flavour == "ser":
                m["model_line"] = "E2E rtu %d %s" % (slave, " ; ".join(ops))
            out.append(Case(line, m))
        return out

    @staticmethod
    def direct_obs(c):
        """[(result, [invocations])] per operation of a direct case"""
        out = []
        for part in (c.impl or "").split(" ; "):
            if " seen=" in part:
                r, sn = part.rsplit(" seen=", 1)
                out.append((r, [] if sn == "-" else sn.split("+")))
            else:
                out.append((part, ["?"]))
        return out

    def scenarios(self, rng, tier):
        """yields dicts: proto, slave, setslaves(list), req, reply(('rsp',r)|('exc',c)|('excraw',c)|('none',)), typed(bool), allcomp(bool)"""
        return []

    def cases(self, rng, tier):
        cs = []
        scs = list(self.scenarios(rng, tier))
        direct = self.direct_cases(scs, rng, tier)
        for sc in scs:
            ops = []
            slave = sc["slave"]
            for s in sc.get("setslaves", []):
                ops.append("slave %d" % s)
                slave = s
            sc["eff_slave"] = slave
            ops += sc.get("pre", [])
            ops.append(cligen.call_op(sc["req"], typed=sc.get("typed", False), W=sc.get("W", "-")))
            m = dict(stage=0, proto=sc["proto"], slave=slave, req=mb.show_req(sc["req"]), svc=svc_token(sc["reply"]),
                     typed=sc.get("typed", False), allcomp=sc.get("allcomp", False), first_slave=sc["slave"], nops=len(ops), npre=len(sc.get("pre", [])), pre_clean=sc.get("pre_clean", False), pre_frames=sc.get("pre_frames"))
            cs.append(Case(cligen.cli_line(sc["proto"], sc["slave"], ops), m))
        # what a service is handed may borrow its payload; the owned copy it keeps (Request::into_owned, SlaveRequest::into_owned) is equal
        if self.id == "C01":
            for _ in range(300 if tier == "quick" else 3000):
                req = mb.rnd_req(rng)
                cs.append(Case("OWN %d %s" % (rng.randrange(256), mb.show_req(req)), {"stage": "own"}))
        # spread the (slower) direct cases evenly
        step = max(1, len(cs) // (len(direct) + 1))
        for i, d in enumerate(direct):
            cs.insert(min(len(cs), (i + 1) * step + i), d)
        return cs

    def followup(self, cases, rng, tier):
        out = []
        st = max((c.meta.get("stage", 0) for c in cases if isinstance(c.meta.get("stage", 0), int)), default=0)
        for c in cases:
            m = c.meta
            if m.get("stage") != st or m.get("ser"):
                continue
            if st == 0:
                res, w = cligen.res_and_w(cligen.split_results(c.impl)[-1])
                if m.get("npre"):
                    # earlier calls left bytes in the write buffer: this call's own frame is the tail of what was transmitted
                    fl = len(cligen.frame(m["proto"], 0, m["slave"], mb.spec_req_pdu(mb.parse_req(m["req"]))))
                    w = w[-fl:]
                if len(w) == 0:
                    continue
                chunkings = list(mb.all_compositions(w)) if (m["allcomp"] and len(w) <= 11) else mb.chunkings(w, rng, 2) + [[w]]
                for parts in chunkings:
                    out.append(Case("SRV %s %s - - %s" % (m["proto"], mb.rscript(parts), m["svc"]), dict(m, stage=1, frame=w.hex(), nchunks=len(parts))))
                # ... and followed IN THE SAME READ by a request the service declines and by the first bytes of a third request:
                # the request is still handed over once and its reply is still written (before the connection goes idle)
                if rng.random() < 0.15 and canon_req(mb.parse_req(m["req"])) is not None:
                    follower = cligen.frame(m["proto"], 0x7777, TAIL_SLAVE, b"\x01\x00\x07\x00\x01")
                    frag = cligen.frame(m["proto"], 0x7778, TAIL_SLAVE, b"\x03\x00\x00\x00\x01")[:3]
                    out.append(Case("SRV %s %s - - %s,n" % (m["proto"], mb.rscript([w + follower + frag]), m["svc"]), dict(m, stage=1, frame=w.hex(), nchunks=1, tail=True)))
                # the serial RTU server on a pty, the frame pipelined behind an answered request
                if m["proto"] == "rtu" and rng.random() < (0.12 if tier == "quick" else 0.3):
                    prev = mb.rtu_frame(PREV_SLAVE, mb.spec_req_pdu(PREV_REQ))
                    stream = prev + w
                    parts = rng.choice([[stream], mb.chunkings(stream, rng, 1)[0]])
                    svc = "r=%s,%s" % (mb.show_rsp(PREV_RSP), m["svc"])
                    exp = ["C:x", "W:" + mb.rtu_frame(PREV_SLAVE, mb.spec_rsp_pdu(PREV_RSP)).hex(), "C:y"]
                    if m["svc"].startswith("r="):
                        exp.append("W:" + mb.rtu_frame(m["slave"], mb.spec_rsp_pdu(mb.parse_rsp(m["svc"][2:]))).hex())
                    elif m["svc"] != "n":
                        exp.append("W:" + mb.rtu_frame(m["slave"], b"\x00\x00").hex())
                    if canon_req(mb.parse_req(m["req"])) is not None:
                        out.append(cligen.ser_case(parts, svc, exp, "w", meta=dict(m, stage=1, frame=w.hex(), nchunks=len(parts))))
            elif st == 1:
                if m.get("nchunks") != 1 and not m["allcomp"]:
                    pass
                ws = [t[2:] for t in (c.impl or "").split(",") if t.startswith("W:")]
                if len(ws) != 1 or m.get("ser") or m.get("tail"):
                    continue
                if m.get("done2"):
                    continue
                w = bytes.fromhex(ws[0])
                chunkings = list(mb.all_compositions(w)) if (m["allcomp"] and len(w) <= 10 and m.get("nchunks") == 1) else ([mb.chunkings(w, rng, 1)[0]] if m.get("nchunks") != 1 else [[w]])
                for parts in chunkings:
                    op = cligen.call_op(m["req"], typed=m["typed"], R=mb.rscript(parts))
                    out.append(Case(cligen.cli_line(m["proto"], m["slave"], [op]), dict(m, stage=2, reply_frame=w.hex())))
        return out

    def distribution(self, cases):
        d = {}
        for c in cases:
            k = "stage%s_%s%s" % (c.meta.get("stage", 0), c.meta.get("flavour") or c.meta.get("proto"), "_serial" if c.meta.get("ser") else "")
            d[k] = d.get(k, 0) + 1
        return d
