"""C03 -- no byte sequence can crash, hang or bloat a decoder, client or server."""
from runner import Prop
from vlib import Case
import mb, cligen, pdugen

QUIET_CEILING = 96 * 1024        # fixed: a sustained stream fed without harness bookkeeping (measured: about 20 KiB)
HEAP_CEILING = 32 * 1024 * 1024   # bytes of live heap over the start of the case, above the input itself


def cls(s):
    s = s or ""
    if s.startswith("V "):
        return "value"
    if s.startswith("E "):
        return "error"
    if s == "P" or "PANIC" in s:
        return "PANIC"
    if "HUNG" in s or "CRASH" in s or "NORESULT" in s:
        return "HUNG"
    return s.split(":")[0].split(" ")[0]


class PROP(Prop):
    id = "C03"
    profiles = ["debug", "release"]
    rule = ("six decoding surfaces (request / response / exception PDU via try_from; TCP and RTU stream decoders behind the real client and the real "
            "servers): all byte strings of length <= 2, sampled 3-byte strings, every function code x every length 0..=300 x adversarial count "
            "fields, random and structured junk streams (valid headers with hostile length / count fields, truncated and over-long frames), random "
            "chunkings incl. byte-wise, sustained junk (64 KiB quick / 1 MiB thorough per surface), integer-overflow checks on (debug) and off "
            "(release).  Oracle: the result class is value / error / waiting / served-or-reported, never PANIC, never a hang or crash, and the peak "
            "live heap of the case stays under a fixed ceiling; sustained line noise of 125 KB .. 3 MB fed by a generator event keeps the library's live memory under 96 KiB.  non-trivial = distinct input that reaches a decoder branch beyond the first byte")

    def junk_streams(self, rng, tier, proto):
        n = 400 if tier == "quick" else 4000
        for _ in range(n):
            r = rng.random()
            if r < 0.3:
                yield bytes(rng.randrange(256) for _ in range(rng.randrange(1, 80)))
            elif r < 0.6:
                # valid framing around junk PDUs
                pdu = bytes([rng.choice(pdugen.REQ_CODES + [0x2B, 0x41, 0x80, 0x83, 0xFF])]) + bytes(rng.choice([0, 0xFF, rng.randrange(256)]) for _ in range(rng.randrange(0, 30)))
                yield cligen.frame(proto, rng.randrange(65536), rng.randrange(256), pdu) + bytes(rng.randrange(256) for _ in range(rng.randrange(0, 5)))
            elif r < 0.8:
                if proto == "tcp":
                    yield mb.be16(rng.randrange(65536)) + mb.be16(rng.choice([0, 0, 1, 0xFFFF])) + mb.be16(rng.choice([0, 1, 2, 255, 256, 65535])) + bytes(rng.randrange(256) for _ in range(rng.randrange(0, 20)))
                else:
                    fc = rng.choice([1, 2, 3, 4, 0x0F, 0x10, 0x17, 0x18, 0x0C, 0x11])
                    yield bytes([rng.randrange(256), fc]) + bytes(rng.choice([0, 0xFF, rng.randrange(256)]) for _ in range(rng.randrange(0, 40)))
            else:
                good = cligen.frame(proto, 0, 1, b"\x03\x02\x00\x07")
                b = bytearray(good * rng.randrange(1, 4))
                for _k in range(rng.randrange(1, 4)):
                    b[rng.randrange(len(b))] = rng.randrange(256)
                yield bytes(b)

    def cases(self, rng, tier):
        cs = []
        seen = set()
        # PDU surfaces, both profiles
        for op, b in pdugen.pdu_inputs(rng, "quick" if tier == "quick" else "thorough"):
            if (op, b) in seen:
                continue
            seen.add((op, b))
            line = "%s %s" % (op, mb.hexs(b))
            cs.append(Case(line, {"k": "pdu", "len": len(b)}, "debug"))
            if rng.random() < (0.15 if tier == "quick" else 0.3):
                cs.append(Case(line, {"k": "pdu", "len": len(b)}, "release"))
        # stream surfaces
        for prof in self.profiles:
            for proto in ("tcp", "rtu"):
                for data in self.junk_streams(rng, tier, proto):
                    for parts in ([data], mb.chunkings(data, rng, 1)[0], [data[i:i + 1] for i in range(len(data))] if len(data) < 60 else [data]):
                        tail = rng.choice([[], ["eof"], ["e:ConnectionReset"]])
                        R = mb.rscript(parts, tail)
                        cs.append(Case(cligen.cli_line(proto, 1, [cligen.call_op(("RHR", 1, 1), R=R)]), {"k": "cli", "len": len(data)}, prof))
                        # whatever the service answers to whatever was decoded: a response, nothing, an exception (also as the first answer)
                        svc = rng.choice(["r=RSI:1:1:-,n,x=4,r=RHR:1", "x=4,x=1,r=RSI:1:1:-,n", "x=255,r=RHR:1,x=0", "n,x=11,r=RSI:1:1:-"])
                        cs.append(Case("SRV %s %s - - %s" % (proto, R, svc), {"k": "srv", "len": len(data)}, prof))
                # sustained junk
                total = 65536 if tier == "quick" else 1 << 20
                for kind in ("random", "frames", "zeros"):
                    if kind == "random":
                        data = bytes(rng.randrange(256) for _ in range(total))
                    elif kind == "zeros":
                        data = bytes(total)
                    else:
                        fr = cligen.frame(proto, 1, 1, b"\x03\x00\x01\x00\x01")
                        data = fr * (total // len(fr))
                    for chunk in (4096, 1):
                        if chunk == 1 and total > 65536:
                            continue
                        d = data if chunk != 1 else data[:8192]
                        parts = [d[i:i + chunk] for i in range(0, len(d), chunk)]
                        R = mb.rscript(parts)
                        cs.append(Case(cligen.cli_line(proto, 1, [cligen.call_op(("RHR", 1, 1), R=R)]), {"k": "cli_sustained", "len": len(d)}, prof))
                        cs.append(Case("SRV %s %s - - -" % (proto, R), {"k": "srv_sustained", "len": len(d)}, prof))
        # a client whose EARLIER call ended inside a reply that announced a (possibly huge) length -- by a read error or by being
        # abandoned -- and whose NEXT call is answered by a complete, valid, shorter frame: that call returns a result; waiting on
        # although nothing is missing from the input is a hang
        for prof in self.profiles:
            for proto in ("tcp", "rtu"):
                heads = [bytes([0x18, 0xFF, 0xFF]), bytes([0x03, 0xFA, 0, 1, 0, 2]), bytes([0x01, 0xFF, 1]), bytes([0x17, 0x80, 9, 9]), bytes([0x11, 0xF0, 1, 0xFF])]
                for h in heads:
                    for how in ("err", "abandon"):
                        slave = rng.randrange(1, 248)
                        if proto == "tcp":
                            first = mb.be16(0) + mb.be16(0) + mb.be16(0xFFFF if h[0] == 0x18 else 1 + 2 + h[1]) + bytes([slave]) + h
                        else:
                            first = bytes([slave]) + h
                        rsp = ("RHR", [rng.randrange(65536)])
                        second = cligen.frame(proto, 1, slave, mb.spec_rsp_pdu(rsp))
                        op1 = cligen.call_op(("RHR", 1, 1), R=mb.rscript([first], ["e:TimedOut"])) if how == "err" else cligen.call_op(("RHR", 1, 1), R=mb.rscript([first], ["p", "p"]), drop="0")
                        op2 = cligen.call_op(("RHR", 2, 1), R="d" + second.hex())
                        cs.append(Case(cligen.cli_line(proto, slave, [op1, op2]), {"k": "after_partial", "len": len(first) + len(second)}, prof))
        # sustained input fed by a generator event (r<count>x<chunk>: nothing about it is recorded by the harness), so that the heap meter
        # sees the library's own memory only: whatever the amount of line noise, live memory stays under a small
        # FIXED ceiling (the receive buffer, one frame, the decoder's bounded record of skipped bytes)
        for prof in self.profiles:
            n = 25000 if tier == "quick" else 200000
            noise16 = bytes([0x00, 0x80] * 8)
            # (served traffic is not measured this way: the harness' own log of service invocations grows with it)
            for proto, chunk, what in (("rtu", noise16, "noise"), ("rtu", bytes([0x80, 0x00, 0x6E, 0x41, 0x80]), "noise")):
                ev = "r%dx%s" % (n, chunk.hex())
                expanded = ",".join(["d" + chunk.hex()] * n)
                cs.append(Case("SRV %s %s - - -" % (proto, ev), {"k": "quiet", "len": n * len(chunk), "what": what, "model_line": "SRV %s %s - - -" % (proto, expanded)}, prof))
                if what == "noise":
                    cs.append(Case(cligen.cli_line(proto, 1, [cligen.call_op(("RHR", 1, 1), R=ev)]),
                                   {"k": "quiet", "len": n * len(chunk), "what": what, "model_line": cligen.cli_line(proto, 1, [cligen.call_op(("RHR", 1, 1), R=expanded)])}, prof))
        # one TCP client object through more than 65 536 calls (answered, failing and refused ones mixed): no call ever panics or hangs
        slave, ops = rng.randrange(1, 248), []
        for j in range(65536 + 40):
            r = j % 211
            if r == 13:
                ops.append(cligen.call_op(("WMR", 0, [1] * 124)))
            elif r == 57:
                ops.append(cligen.call_op(("RHR", j & 0xFFFF, 1), R="e:Other"))
            else:
                ops.append(cligen.call_op(("RHR", j & 0xFFFF, 1), R="d" + cligen.frame("tcp", j & 0xFFFF, slave, bytes([3, 2, 0, 7])).hex()))
        cs.append(Case(cligen.cli_line("tcp", slave, ops), {"k": "longlived", "n": len(ops)}))
        return cs

    def project(self, case, s):
        return cls(s)

    def oracle(self, c):
        k = cls(c.impl)
        if k == "PANIC":
            return "panic on input %s" % c.line[:80]
        if k == "HUNG":
            return "hang/crash: %s" % (c.impl or "")[:80]
        if c.meta.get("k") == "after_partial":
            last = cligen.split_results(c.impl or "")[-1]
            if last.startswith("WAIT"):
                return "the call after one that ended inside a reply keeps waiting although its complete reply was delivered (nothing is missing from the input): %s" % (c.impl or "")[:120]
        if not c.meta.get("on_model") and c.meta.get("k") == "quiet" and c.peak > QUIET_CEILING:
            return "peak live heap %d bytes while %d bytes of %s went through: memory grows with the amount of input" % (c.peak, c.meta["len"], c.meta["what"])
        if not c.meta.get("on_model") and c.peak > HEAP_CEILING + 256 * c.meta.get("len", 0):
            return "peak live heap %d bytes for an input of %d bytes" % (c.peak, c.meta.get("len", 0))
        return None

    def nontrivial(self, c):
        return c.meta.get("len", 0) >= 2

    def key(self, c):
        return c.line[:200] + c.profile + str(len(c.line))

    def distribution(self, cases):
        d = {}
        for c in cases:
            k = "%s_%s_%s" % (c.meta["k"], c.profile, cls(c.impl))
            d[k] = d.get(k, 0) + 1
        d["max_peak_heap"] = max((c.peak for c in cases), default=0)
        return d
