"""C13 -- transport faults surface as transport errors, never as data."""
from runner import Prop
from vlib import Case
import mb, cligen

ERRNOS = [None, 0, 2, 11, 104, 103, 32, 107, 110]
FAULT_KINDS = ["ConnectionReset", "Other", "TimedOut", "PermissionDenied", "BrokenPipe", "UnexpectedEof", "InvalidData", "NotConnected"]


class PROP(Prop):
    id = "C13"
    profiles = ["debug"]
    rule = ("for a spread of request shapes, TCP and RTU: partial outer frames whose payload embeds a complete valid matching reply frame, then end of stream or a read error (never data); reply truncated at EVERY byte offset followed by end of stream or a read error of "
            "each tested kind; write fault (error, zero-length write) at EVERY offset of the request frame for write granularities "
            "{1,2,3,7,all} and pending patterns; the same context used again after a write fault at every offset (lifetime stream = frame after frame); flush errors; fault-free piecewise writes; each under ambient errno states "
            "{untouched,0,2} (quick; +11,104,103,32,107,110 thorough and always for the orderly end of stream) forced before every poll.  non-trivial = a fault or a piecewise write was actually injected")

    def shapes(self, rng, tier):
        reqs = [("RHR", 0, 2), ("RC", 7, 19), ("WSC", 3, True), ("WMR", 9, [1, 2, 3]), ("RSI",), ("MWR", 1, 2, 3), ("WMC", 1, [True] * 11),
                ("CU", 0x18, b"\x12\x34"), ("CU", 0x07, b""), ("CU", 0x0C, b""), ("CU", 0x0B, b"")]
        if tier == "thorough":
            reqs += [mb.rnd_req(rng) for _ in range(12)]
            reqs = [r for r in reqs if mb.spec_req_size(r) <= 253]
        return reqs

    def cases(self, rng, tier):
        cs = []
        for proto in ("tcp", "rtu"):
            for req in self.shapes(rng, tier):
                if proto == "rtu" and not cligen.rtu_supported_req(req):
                    continue
                slave = rng.randrange(1, 248)
                rsp = mb.matching_rsp(rng, req)
                if req[0] == "CU" and req[1] in (0x18, 0x07, 0x0C, 0x0B):
                    # replies of the serial-line codes in the shape the RTU response length table expects
                    rsp = ("CU", req[1], {0x18: bytes([0, 4, 0xAA, 0xBB, 0xCC, 0xDD]), 0x07: b"\x55", 0x0C: bytes([3, 1, 2, 3]), 0x0B: bytes([0, 0, 0, 9])}[req[1]])
                reply = cligen.frame(proto, 0, slave, mb.spec_rsp_pdu(rsp))
                frame = cligen.frame(proto, 0, slave, mb.spec_req_pdu(req))
                good = "OK:" + mb.show_rsp(mb.pad_rsp(rsp))
                errnos = ERRNOS if tier == "thorough" else [None, 0, 2]
                eof0_errnos = ERRNOS      # the orderly end of stream before any reply byte: every errno state, always
                # --- read faults at every offset
                for k in range(0, len(reply)):
                    for tail in ["eof"] + ["e:" + x for x in (FAULT_KINDS if tier == "thorough" else FAULT_KINDS[:3])]:
                        for split in (False, True):
                            if k == 0 and split:
                                continue
                            parts = [reply[:k]] if not split else [reply[:k // 2], reply[k // 2:k]]
                            R = mb.rscript(parts, [tail])
                            for en in (eof0_errnos if (k == 0 and tail == "eof") else errnos):
                                cs.append(Case(cligen.cli_line(proto, slave, [cligen.call_op(req, R=R)]),
                                               {"k": "rfault", "off": k, "tail": tail, "frame": frame.hex(), "proto": proto}, errno=en))
                # --- write faults at every offset
                for g in (1, 2, 3, 7, 1000):
                    for k in range(0, len(frame)):
                        nacc = k // g
                        rem = k - nacc * g
                        pre = ["a%d" % g] * nacc + (["a%d" % rem] if rem else [])
                        for fault in ["z", "e:ConnectionReset", "e:BrokenPipe", "e:Other", "e:Interrupted", "e:WouldBlock"]:
                            for pend in (False, True):
                                ev = list(pre)
                                if pend:
                                    ev = [x for e in ev for x in (e, "p")] or ["p"]
                                W = ",".join(ev + [fault])
                                cs.append(Case(cligen.cli_line(proto, slave, [cligen.call_op(req, W=W, R=mb.rscript([reply]))]),
                                               {"k": "wfault", "off": k, "frame": frame.hex(), "proto": proto, "fault": fault}))
                    # the same context used again after the write fault: what reaches the transport over the client's lifetime is
                    # still frame after frame, each once and in order (the unsent rest of the first frame precedes the second frame)
                    if g in (1, 1000):
                        for k in range(0, len(frame)):
                            nacc = k // g
                            rem = k - nacc * g
                            pre = ["a%d" % g] * nacc + (["a%d" % rem] if rem else [])
                            fault = rng.choice(["z", "e:ConnectionReset", "e:Other", "e:TimedOut", "e:Interrupted"])
                            req2 = ("RHR", rng.randrange(65536), 1)
                            frame2 = cligen.frame(proto, 1, slave, mb.spec_req_pdu(req2))
                            reply2 = cligen.frame(proto, 1, slave, mb.spec_rsp_pdu(("RHR", [rng.randrange(65536)])))
                            cs.append(Case(cligen.cli_line(proto, slave, [cligen.call_op(req, W=",".join(pre + [fault]), R="-"), cligen.call_op(req2, R=mb.rscript([reply2]))]),
                                           {"k": "wfault_next", "off": k, "frame": frame.hex(), "frame2": frame2.hex(), "proto": proto, "fault": fault}))
                    # a request the encoder REFUSES (nothing may reach the transport, no part of a header either), then a further call whose
                    # writes are accepted in small pieces: the transport receives exactly that second frame
                    if g in (1, 3):
                        big = rng.choice([("WMR", 7, [1] * rng.randrange(124, 140)), ("CU", 0x41, bytes(rng.randrange(253, 300))), ("RWMR", 1, 1, 2, [5] * rng.randrange(122, 130))])
                        req2 = ("RHR", rng.randrange(65536), 1)
                        frame2 = cligen.frame(proto, 1, slave, mb.spec_req_pdu(req2))
                        reply2 = cligen.frame(proto, 1, slave, mb.spec_rsp_pdu(("RHR", [rng.randrange(65536)])))
                        n2 = (len(frame2) + g - 1) // g
                        cs.append(Case(cligen.cli_line(proto, slave, [cligen.call_op(big), cligen.call_op(req2, W=",".join(["a%d" % g, "p"] * n2), R=mb.rscript([reply2]))]),
                                       {"k": "wfault_next", "off": 0, "frame": "", "frame2": frame2.hex(), "proto": proto, "fault": "refused by the encoder"}))
                    # fault-free piecewise writes with pending patterns
                    for pat in range(3):
                        n = (len(frame) + g - 1) // g
                        ev = []
                        for i in range(n):
                            if pat == 1 or (pat == 2 and rng.random() < 0.5):
                                ev.append("p")
                            ev.append("a%d" % g)
                        F = rng.choice(["-", "ok", "p,ok", "p,p,ok"])
                        for en in errnos[:2]:
                            cs.append(Case(cligen.cli_line(proto, slave, [cligen.call_op(req, W=",".join(ev), F=F, R=mb.rscript([reply]))]),
                                           {"k": "wpieces", "frame": frame.hex(), "good": good, "proto": proto}, errno=en))
                # flush errors
                for fk in ("ConnectionReset", "Other", "BrokenPipe"):
                    cs.append(Case(cligen.cli_line(proto, slave, [cligen.call_op(req, F="e:" + fk, R=mb.rscript([reply]))]),
                                   {"k": "ffault", "frame": frame.hex(), "proto": proto}))
            # --- read faults at every offset of a reply on a context whose EARLIER call already failed inside a (shorter or longer)
            #     reply: whatever that call left behind in the framing layer, the truncated reply is a transport error, never data
            slave = rng.randrange(1, 248)
            pairs = [(("RHR", 7, 1), ("RHR", [0x1111]), ("RHR", 9, 4), ("RHR", [1, 2, 3, 4])),
                     (("RHR", 7, 4), ("RHR", [1, 2, 3, 4]), ("RHR", 9, 1), ("RHR", [0x2222]))]
            if proto == "tcp":
                pairs.append((("CU", 0x41, b"\x01"), ("CU", 0x41, b"\xb1"), ("CU", 0x41, b"\x02"), ("CU", 0x41, bytes(range(0xa1, 0xa9)))))
            for req1, rsp1, req2, rsp2 in pairs:
                reply1 = cligen.frame(proto, 0, slave, mb.spec_rsp_pdu(rsp1))
                reply2 = cligen.frame(proto, 1, slave, mb.spec_rsp_pdu(rsp2))
                frame2 = cligen.frame(proto, 1, slave, mb.spec_req_pdu(req2))
                for k1 in range(1, len(reply1)):
                    for k2 in range(0, len(reply2)):
                        for tail in ("eof", "e:ConnectionReset"):
                            if tier == "quick" and tail == "eof" and (k1 + k2) % 2:
                                continue
                            ops = [cligen.call_op(req1, R=mb.rscript([reply1[:k1]], ["e:TimedOut"])),
                                   cligen.call_op(req2, R=mb.rscript([reply2[:k2]], [tail]))]
                            cs.append(Case(cligen.cli_line(proto, slave, ops), {"k": "rfault_hist", "off": k2, "off1": k1, "tail": tail, "frame": frame2.hex(), "proto": proto}))
        # --- a partial frame whose payload CONTAINS a complete, valid, matching reply frame (e.g. a register dump of a gateway's own traffic):
        #     the stream ends / fails inside the outer frame, so the call is a transport error -- never the embedded frame as data
        for proto in ("tcp", "rtu"):
            for _ in range(30 if tier == "quick" else 300):
                slave = rng.randrange(1, 248)
                k = rng.choice(["RHR", "RIR", "RC", "RDI"])
                q = rng.randrange(1, 5)
                req = (k, rng.randrange(65536), q)
                inner_rsp = (k, [rng.randrange(65536) for _ in range(q)]) if k in ("RHR", "RIR") else (k, [rng.random() < 0.5 for _ in range(8)])
                inner = cligen.frame(proto, 0, slave, mb.spec_rsp_pdu(inner_rsp))
                junk = bytes(rng.randrange(256) for _ in range(rng.choice([0, 0, 1, 2, 3])))
                body = junk + inner + bytes(rng.randrange(256) for _ in range(rng.choice([0, 0, 1, 2])))
                announced = len(body) + rng.randrange(1, 6)            # the outer frame announces more than ever arrives
                if proto == "rtu":
                    outer = bytes([slave, mb.req_fc(req), announced])
                else:
                    outer = mb.be16(0) + mb.be16(0) + mb.be16(announced + 3) + bytes([slave, mb.req_fc(req), announced])
                data = outer + body
                frame = cligen.frame(proto, 0, slave, mb.spec_req_pdu(req))
                for tail in ("eof", "e:" + rng.choice(FAULT_KINDS)):
                    parts = rng.choice([[data], [outer, body], [data[i:i + 1] for i in range(len(data))], mb.chunkings(data, rng, 1)[0]])
                    cs.append(Case(cligen.cli_line(proto, slave, [cligen.call_op(req, R=mb.rscript(parts, [tail]))]),
                                   {"k": "rfault", "off": len(data), "tail": tail, "frame": frame.hex(), "proto": proto, "embedded": True}))
        return cs

    def extra_checks(self, cases, tier, rng):
        # "determined by what the transport did alone": same line, different ambient errno => same result
        by = {}
        out = []
        for c in cases:
            by.setdefault(c.line, set()).add(c.impl)
        bad = [l for l, s in by.items() if len(s) > 1]
        for l in bad[:5]:
            c = next(c for c in cases if c.line == l)
            out.append((c, "call result depends on the ambient OS error state: %s" % sorted(by[l])))
        return out

    def oracle(self, c):
        m = c.meta
        if m["k"] == "wfault_next":
            rs = cligen.split_results(c.impl)
            if len(rs) != 2 or "PANIC" in (c.impl or ""):
                return "panic / result count: %s" % (c.impl or "")[:80]
            (r1, w1), (r2, w2) = cligen.res_and_w(rs[0]), cligen.res_and_w(rs[1])
            if not r1.startswith("T:"):
                return "write fault %s at offset %d: call returned %s" % (m["fault"], m["off"], r1[:60])
            want = bytes.fromhex(m["frame"]) + bytes.fromhex(m["frame2"])
            got = w1 + w2
            if not r2.startswith("OK:"):
                return "after a send that failed (%s) the transport accepted everything and delivered the reply, but the next call returned %s: its result does not follow from what the transport did" % (m["fault"], r2[:60])
            if got != want[:len(got)] or (r2.startswith("OK:") and got != want):
                return "after a write fault at offset %d the transport received %s over the client's lifetime; the frames are %s" % (m["off"], got.hex()[:80], want.hex()[:80])
            return None
        if m["k"] == "rfault_hist":
            rs = cligen.split_results(c.impl)
            if len(rs) != 2 or "PANIC" in (c.impl or ""):
                return "panic / result count: %s" % (c.impl or "")[:80]
            res, w = cligen.res_and_w(rs[1])
            if not res.startswith("T:"):
                return "after a call that failed at offset %d of its reply, a reply truncated at offset %d then %s: call returned %s, not a transport error" % (m["off1"], m["off"], m["tail"], res[:60])
            if m["tail"].startswith("e:") and res != "T:" + m["tail"][2:]:
                # the result is determined by what the transport did: it raised exactly this error while the reply was incomplete
                return "after a call that failed at offset %d of its reply, the transport failed with %s at offset %d of the next reply, but the call reported %s" % (m["off1"], m["tail"][2:], m["off"], res)
            return None
        res, w = cligen.res_and_w(c.impl or "")
        frame = bytes.fromhex(m["frame"])
        if "PANIC" in res or "CRASH" in res or "NORESULT" in res:
            return "panic/crash: %s" % res[:60]
        if m["k"] == "rfault":
            if not res.startswith("T:"):
                return "reply truncated at offset %d then %s: call returned %s, not a transport error" % (m["off"], m["tail"], res[:60])
            if w != frame:
                return "request frame not written exactly once"
            if m["tail"] == "eof" and m["off"] == 0 and res[2:] not in cligen.CLOSED_FAMILY:
                return "orderly end of stream reported as %s, which does not denote a closed connection" % res
            return None
        if m["k"] == "wfault":
            if not res.startswith("T:"):
                return "write fault %s at offset %d: call returned %s" % (m["fault"], m["off"], res[:60])
            if w != frame[:m["off"]]:
                return "bytes accepted before the fault are not the frame's prefix of length %d: %s" % (m["off"], w.hex())
            return None
        if m["k"] == "wpieces":
            if w != frame:
                return "piecewise write: transport received %s, frame is %s" % (w.hex(), frame.hex())
            return None if res == m["good"] else "piecewise write: result %s, want %s" % (res[:60], m["good"][:60])
        if m["k"] == "ffault":
            return None if res.startswith("T:") else "flush error not reported as transport error: %s" % res[:60]
        return None

    def project(self, case, s):
        # the kind of an injected error is compared too (it is what the transport did)
        return s

    def key(self, c):
        return c.line + str(c.errno)

    def distribution(self, cases):
        d = {}
        for c in cases:
            d[c.meta["k"]] = d.get(c.meta["k"], 0) + 1
            d["errno=%s" % c.errno] = d.get("errno=%s" % c.errno, 0) + 1
        return d
