"""C12 -- a failed call never desynchronises the calls that follow it."""
import itertools
from runner import Prop
from vlib import Case
import mb, cligen

ALPHABET = ["good", "exception", "wrong_header", "wrong_function", "undecodable", "noise", "read_error", "surplus", "bad_mbap", "short_then_error", "refused_junk"]


def simple_req(rng):
    return mb.rnd_req(rng, rng.choice(["RC", "RHR", "RIR", "WSR", "WSC", "MWR", "RDI"]))


class PROP(Prop):
    id = "C12"
    profiles = ["debug"]
    rule = ("all call histories up to length 3 (quick) / 4 (thorough) plus random longer ones over the outcome alphabet {good, exception, wrong "
            "header, wrong function, undecodable frame, CRC noise beyond the retry limit (RTU), transient read error, trailing surplus, "
            "invalid MBAP header (TCP), truncated frame then error, a refused oversized request while an undecodable frame is pending}, each followed by a good exchange, TCP and RTU, replies delivered "
            "in one or several chunks.  Oracle: every call whose request was written and whose read script starts with its matching "
            "reply must return that reply.  non-trivial = history containing at least one failing outcome")

    def cases(self, rng, tier):
        cs = []
        maxlen = 3 if tier == "quick" else 4
        for proto in ("tcp", "rtu"):
            alpha = [a for a in ALPHABET if not (proto == "tcp" and a == "noise") and not (proto == "rtu" and a == "bad_mbap")]
            hists = []
            for n in range(0, maxlen + 1):
                hists += list(itertools.product(alpha, repeat=n))
            for _ in range(300 if tier == "quick" else 3000):
                hists.append(tuple(rng.choice(alpha) for _ in range(rng.randrange(4, 9))))
            for h in hists:
                cs.append(self.build(proto, list(h) + ["good"], rng))
        return cs

    def build(self, proto, outcomes, rng):
        # also the broadcast address 0 and the reserved ids: a device (or gateway, or simulator) that answers them is answered to
        slave = rng.randrange(1, 248) if rng.random() < 0.7 else rng.choice([0, 0, 0, 248, 255])
        ops, expect, whole, frames = [], [], [], []
        for i, o in enumerate(outcomes):
            req = simple_req(rng)
            fc = mb.req_fc(req)
            rsp = mb.matching_rsp(rng, req)
            good = cligen.frame(proto, i, slave, mb.spec_rsp_pdu(rsp))
            want = None
            if o == "good":
                parts = mb.chunkings(good, rng, 1)[0]
                R = mb.rscript(parts)
                want = "OK:" + mb.show_rsp(mb.pad_rsp(rsp))
            elif o == "surplus":
                R = mb.rscript([good + bytes(rng.randrange(256) for _ in range(rng.randrange(1, 12)))])
                want = "OK:" + mb.show_rsp(mb.pad_rsp(rsp))
            elif o == "exception":
                code = rng.randrange(1, 12)
                R = mb.rscript(mb.chunkings(cligen.frame(proto, i, slave, cligen.exc_pdu(fc, code)), rng, 1)[0])
                want = "EX:%d" % code
            elif o == "wrong_header":
                if proto == "tcp":
                    fr = cligen.frame(proto, (i + rng.randrange(1, 100)) & 0xFFFF, slave, mb.spec_rsp_pdu(rsp))
                else:
                    fr = cligen.frame(proto, i, (slave % 247) + 1, mb.spec_rsp_pdu(rsp))
                R = mb.rscript(mb.chunkings(fr, rng, 1)[0])
            elif o == "wrong_function":
                other = ("WSR", 1, 2) if req[0] != "WSR" else ("WMR", 1, 2)
                R = mb.rscript(mb.chunkings(cligen.frame(proto, i, slave, mb.spec_rsp_pdu(other)), rng, 1)[0])
            elif o == "undecodable":
                R = mb.rscript(mb.chunkings(cligen.frame(proto, i, slave, bytes([5, 0, 1, 0x12, 0x34])), rng, 1)[0])
            elif o == "noise":
                R = mb.rscript([bytes([0x00, 0x80] * 13)])
            elif o == "read_error":
                R = "e:" + rng.choice(["ConnectionReset", "Other", "TimedOut", "PermissionDenied"])
            elif o == "bad_mbap":
                bad = bytearray(good)
                if rng.random() < 0.5:
                    bad[2] = 1
                else:
                    bad[4] = bad[5] = 0
                # split so that a read ends right after the 7-byte header or elsewhere: the call must consume the whole bad frame
                bad = bytes(bad)
                R = mb.rscript(rng.choice([[bad], [bad[:7], bad[7:]], [bad[:7], bad[7:8], bad[8:]], mb.chunkings(bad, rng, 1)[0]]))
            elif o == "refused_junk":
                # a request the encoder refuses (nothing is transmitted) while an undecodable frame is already waiting in the transport:
                # the refused call has no business reading it
                req = rng.choice([("WMR", 7, [1] * 130), ("CU", 0x41, bytes(300))])
                junk = cligen.frame(proto, i, slave, bytes([5, 0, 1, 0x12, 0x34])) if proto == "tcp" else bytes([0x00, 0x80] * 13)
                R = mb.rscript([junk])
            elif o == "short_then_error":
                R = mb.rscript([good[:max(1, len(good) // 2)]], ["e:ConnectionReset"])
            ops.append(cligen.call_op(req, R=R))
            expect.append(want)
            frames.append(cligen.frame(proto, i, slave, mb.spec_req_pdu(req)).hex() if mb.spec_req_size(req) <= 253 else "")
            # the reply is exactly one frame whose extent its own header / length table announces: the call has to
            # consume it completely before it returns ("never gives up before consuming the reply")
            zero_len = (o == "bad_mbap" and "d" in R and bytes.fromhex("".join(e[1:] for e in R.split(",") if e.startswith("d")))[4:6] == b"\x00\x00")
            whole.append(o in ("good", "exception", "wrong_header", "wrong_function", "undecodable") or (o == "bad_mbap" and not zero_len))
        return Case(cligen.cli_line(proto, slave, ops), {"outcomes": outcomes, "expect": expect, "proto": proto, "whole": whole, "frames": frames})

    def oracle(self, c):
        rs = cligen.split_results(c.impl)
        exp = c.meta["expect"]
        if len(rs) != len(exp):
            return "result count %d != calls %d: %s" % (len(rs), len(exp), (c.impl or "")[:80])
        prev_unread = 0
        for i, (r, want) in enumerate(zip(rs, exp)):
            res, w = cligen.res_and_w(r)
            q = cligen.unread(r)
            if "PANIC" in res:
                return "call %d panicked" % i
            if w.hex() != c.meta["frames"][i]:
                return "call %d (%s) did not perform its OWN exchange: it wrote %s, its request frame is %s" % (i, c.meta["outcomes"][i], w.hex()[:60] or "nothing", c.meta["frames"][i][:60] or "nothing (refused)")
            if c.meta["whole"][i] and len(w) > 0 and prev_unread == 0 and q not in (0, None):
                return "call %d (%s) returned %s before consuming the reply to the request it had transmitted (%d read(s) of that reply still pending)" % (
                    i, c.meta["outcomes"][i], res[:40], q)
            stale = prev_unread != 0
            prev_unread = q or 0
            if stale:
                continue        # stale bytes of an earlier exchange come first: the premise "then delivers the matching reply" does not hold
            if want is not None and len(w) > 0 and res != want:
                return "call %d (%s after %s) wrote its request, its matching reply was delivered, but it returned %s instead of %s" % (
                    i, c.meta["outcomes"][i], ",".join(c.meta["outcomes"][:i]) or "nothing", res[:60], want[:60])
        return None

    def nontrivial(self, c):
        return any(o not in ("good",) for o in c.meta["outcomes"])

    def distribution(self, cases):
        d = {}
        for c in cases:
            for o in c.meta["outcomes"]:
                d[o] = d.get(o, 0) + 1
        return d
