#!/bin/sh
# usage: tools/use_repo.sh <path to a checkout of tokio-modbus>
# Points THIS checkout of /verif (e.g. a `vp run` snapshot) at another copy of the repository than /repo: rewrites the
# path dependency of the harness.  Python tools honour VERIF_REPO.  Never used by the registered checks.
set -e
cd "$(dirname "$0")/.."
sed -i "s#path = \"[^\"]*\"#path = \"$1\"#" harness/Cargo.toml
grep -n "tokio-modbus = " harness/Cargo.toml
