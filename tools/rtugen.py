"""rtugen -- RTU stream generators and the slice oracle shared by C04 and C11."""
import mb, cligen

NOISE = [0x00, 0x80] + list(range(0x41, 0x49)) + list(range(0x64, 0x6F))


def rtu_req(rng):
    """a request the RTU request table carries, modest size"""
    while True:
        req = mb.rnd_req(rng, rng.choice(["RC", "RDI", "RHR", "RIR", "WSR", "WSC", "MWR", "RSI", "WMR", "WMC", "RWMR"]))
        if mb.spec_req_size(req) <= 40:
            return req


def find_slices(stream, delivered, side="req"):
    """delivered: list of (slave, value).  Checks that they are CRC-valid contiguous, in-order, non-overlapping
    slices of `stream`.  Returns None if fine else a message."""
    cursor = 0
    for (slave, val) in delivered:
        found = None
        if side == "req":
            base = mb.spec_req_size(val)
            cands = [base]
            if val[0] == "WMC":
                cands += list(range(base + 1, 6 + 256))
        else:
            base = mb.spec_rsp_size(val) if not isinstance(val, bytes) else len(val)
            cands = [base]
        for p in range(cursor, len(stream)):
            if stream[p] != slave:
                continue
            for L in cands:
                end = p + 1 + L + 2
                if end > len(stream):
                    continue
                pdu = stream[p + 1:p + 1 + L]
                c = mb.crc16(stream[p:p + 1 + L])
                if stream[p + 1 + L] != (c & 0xFF) or stream[p + 2 + L] != (c >> 8):
                    continue
                if side == "req":
                    cl = mb.classify_req(pdu)
                    ok = cl[0] == "accept" and cl[1] == val
                else:
                    if isinstance(val, bytes):
                        ok = bytes(pdu) == val
                    else:
                        cl = mb.classify_rsp(pdu)
                        ok = cl[0] == "accept" and cl[1] == val
                if ok:
                    found = end
                    break
            if found:
                break
        if not found:
            return "delivered frame (slave %d, %s) is not a CRC-valid slice of the received stream after offset %d" % (slave, str(val)[:50], cursor)
        cursor = found
    return None


def parse_calls(trace):
    out = []
    for t in trace.split(","):
        if t.startswith("C:"):
            _, s, rest = t.split(":", 2)
            out.append((int(s), mb.parse_req(rest)))
    return out
