"""C18 -- concurrent connections are served independently."""
from runner import Prop
from vlib import Case
import mb, cligen


def rule_reply(req):
    """the harness' RuleService, mirrored"""
    if req[0] == "WSR":
        return ("rsp", ("WSR", req[1], req[2]))
    if req[0] == "RHR" and req[2] <= 8:
        return ("rsp", ("RHR", [(req[1] + i) & 0xFFFF for i in range(req[2])]))
    if req[0] == "RC":
        return ("none",)
    return ("exc", 4)


def survive_cases(rng, tier):
    """connections established before ANOTHER connection's setup fails (serve returns that error) or is rejected: each of them
    still gets the reply to a request it sends afterwards"""
    cs = []
    for _ in range(6 if tier == "quick" else 60):
        for proto in ("tcp", "rtu"):
            n = rng.randrange(1, 5)
            end = rng.choice(["e:Other", "e:PermissionDenied", "e:ConnectionReset", "r", "h", "h"])
            if end == "h":
                n = rng.randrange(2, 5)       # overlapping connection setups need at least two peers
            conns, want = [], []
            for k in range(n):
                fs = []
                for seq in (1, 2):
                    req = ("WSR", rng.randrange(65536), rng.randrange(65536))
                    fs.append((cligen.frame(proto, rng.randrange(65536), rng.randrange(1, 248), mb.spec_req_pdu(req)), "r=" + mb.show_rsp(("WSR", req[1], req[2]))))
                conns.append("%s/%s/%s/%s" % (fs[0][0].hex(), fs[1][0].hex(), fs[0][1], fs[1][1]))
                want.append("first=%s second=%s" % (fs[0][0].hex(), fs[1][0].hex()))      # WriteSingleRegister is echoed
            cs.append(Case("SURVIVE %s %s %s" % (proto, end, "|".join(conns)),
                           {"k": "survive", "proto": proto, "want": "serve=%s | %s" % ("LISTENING" if end in ("r", "h") else "E:" + end[2:], " | ".join(want)), "end": end, "n": n}))
    return cs


def conn_cases(rng, tier):
    """one connection of the many, on a scripted transport: its pipelined requests arrive cut at EVERY byte offset (what concurrent
    traffic does to segmentation), and its transport accepts the replies in pieces, with pauses, or fails with any error kind
    (also the transient-looking ones).  The bytes written must be this connection's replies in request order -- all of them
    when nothing failed, a prefix when a write failed; never a reply twice, never one skipped"""
    from p_c07 import gen_pipeline, svc_tok, expected_trace
    cs = []
    for proto in ("tcp", "rtu"):
        for it in range(10 if tier == "quick" else 80):
            k = rng.choice([2, 3, 4])
            for _try in range(200):
                frames, hdrs, reqs, svc = gen_pipeline(rng, proto, k)
                stream = b"".join(frames)
                # every other pipeline carries a variable-length request (write multiple coils / registers, read-write multiple): their
                # length is known only once the byte count has arrived, so the cut positions inside their head matter
                if len(stream) <= 100 and (it % 2 == 1 or any(r[0] in ("WMR", "WMC", "RWMR") for r in reqs)):
                    break
            if len(stream) > 100:
                continue
            exp = expected_trace(proto, hdrs, reqs, svc)
            replies = "".join(e[2:] for e in exp if e.startswith("W:"))
            svctok = ",".join(svc_tok(e) for e in svc)
            for off in range(1, len(stream)):
                cs.append(Case("SRV %s %s - - %s" % (proto, mb.rscript([stream[:off], stream[off:]]), svctok),
                               {"k": "pipe", "proto": proto, "replies": replies, "full": True, "off": off}))
            total = len(replies) // 2
            for _ in range(12):
                if total == 0:
                    break
                off = rng.randrange(total)
                fault = "e:" + rng.choice(cligen.KINDS)
                pre, left = [], off
                while left > 0:
                    nacc = rng.randrange(1, left + 1)
                    pre.append("a%d" % nacc)
                    left -= nacc
                if rng.random() < 0.3:
                    pre = [x for e in pre for x in (e, "p")]
                F = rng.choice(["-", "-", "ok", "e:Interrupted"])
                cs.append(Case("SRV %s %s %s %s %s" % (proto, mb.rscript(mb.chunkings(stream, rng, 1)[0]), ",".join(pre + [fault]), F, svctok),
                               {"k": "pipe", "proto": proto, "replies": replies, "full": False, "off": off, "fault": fault}))
            for kind in rng.sample(cligen.KINDS, 3):
                cs.append(Case("SRV %s %s - e:%s %s" % (proto, mb.rscript([stream]), kind, svctok),
                               {"k": "pipe", "proto": proto, "replies": replies, "full": False, "off": -1, "fault": "flush e:" + kind}))
    return cs


def conn_oracle(c):
    tr = (c.impl or "").split(",")
    written = "".join(t[2:] for t in tr if t.startswith("W:"))
    want = c.meta["replies"]
    if c.meta["full"]:
        if written != want:
            return "requests cut into two segments at offset %d: the connection received %s, its replies in request order are %s" % (c.meta["off"], written[:100], want[:100])
        return None
    if not want.startswith(written):
        return "transport fault %s while replying: the connection received %s, not a prefix of its replies in request order %s" % (c.meta["fault"], written[:100], want[:100])
    return None


def survive_oracle(c):
    r = c.impl or ""
    if r == c.meta["want"]:
        return None
    return "connections whose setup overlaps with or precedes another connection (scenario %s): got %s; every one of them must be served (%s)" % (
        c.meta["end"], r[:160], c.meta["want"][:120])


class PROP(Prop):
    id = "C18"
    profiles = ["debug"]
    shard_min = 1
    kernel_sample = 48

    def kernel_pool(self, cases):
        # the concurrent runs have no model line of their own (their per-connection follow-ups do)
        return [c for c in cases if c.meta["k"] in ("pipe", "srv", "accept", "survive")]
    rule = ("runs of 2..16 (quick) / 2..64 (thorough) simultaneous real TCP clients against one real TCP resp. RTU-over-TCP server on a multi-threaded "
            "runtime (2..8 workers); every connection pipelines 1..12 requests tagged (connection, sequence) with random pacing (0..300 us); the "
            "service answers by a fixed rule (echo / computed registers / no reply / exception).  Oracle: the bytes each client received are exactly "
            "the spec replies to its own requests in its own order; the service factory was invoked once per connection with that connection's "
            "peer address (runs over the IPv4 and the IPv6 loopback; accept_tcp_connection also probed directly with IPv4, IPv6, mapped, compatible, scoped addresses).  Each connection's byte stream is also run through the model (SRV) and compared.  Connections established before another connection's setup fails or is rejected send a further request afterwards and must still be answered (SURVIVE).  Some connections send their pipelined requests in segments that end 1..7 bytes inside the next frame; one connection of the many is also run on a scripted transport with its request stream cut at EVERY offset and with write / flush faults of every error kind (what it receives is its replies in request order, or a prefix of them).  non-trivial = run with >= 2 connections")

    def cases(self, rng, tier):
        cs = []
        runs = 12 if tier == "quick" else 120
        for proto in ("tcp", "rtu"):
            for _ in range(runs):
                nconn = rng.randrange(2, 17 if tier == "quick" else 65)
                conns, metas = [], []
                # some runs have connections that stay idle for a while before their first request: the others
                # must be served meanwhile
                idle = set(rng.sample(range(nconn), rng.randrange(1, max(2, nconn // 3)))) if rng.random() < 0.6 else set()
                if len(idle) == nconn:
                    idle.pop()
                for ci in range(nconn):
                    plan, reqs = [], []
                    for seq in range(rng.randrange(1, 13)):
                        r = rng.random()
                        if r < 0.6:
                            req = ("WSR", ci, seq)
                        elif r < 0.8:
                            req = ("RHR", (ci * 256 + seq) & 0xFFFF, rng.randrange(1, 9))
                        elif r < 0.9:
                            req = ("RC", ci, seq + 1)
                        else:
                            req = ("MWR", ci, seq, 1)
                        tid, uid = (ci * 100 + seq) & 0xFFFF, ci & 0xFF
                        fr = cligen.frame(proto, tid, uid, mb.spec_req_pdu(req))
                        delay = rng.choice([0, 0, 50, 300])
                        if ci in idle and seq == 0:
                            delay = 1500000         # 1.5 s of silence after connecting
                        plan.append("%d:%s" % (delay, fr.hex()))
                        reqs.append((tid if proto == "tcp" else 0, uid, req))
                    if ci not in idle and rng.random() < 0.4 and len(plan) >= 2:
                        # TCP is a byte stream: the same requests cut into segments that do NOT end on frame boundaries (often a
                        # frame plus the first 1..3 bytes of the next one); a pause of >= 1 ms makes each piece its own segment
                        data = b"".join(mb.unhex(e.split(":")[1]) for e in plan)
                        ends, pos = [], 0
                        for e in plan[:-1]:
                            pos += len(e.split(":")[1]) // 2
                            ends.append(min(len(data) - 1, pos + rng.choice([1, 2, 3, 1, 2, 3, 4, 7, -1, -2])))
                        cuts = sorted(set(x for x in ends if 0 < x < len(data)))
                        plan, prev = [], 0
                        for cpos in cuts + [len(data)]:
                            plan.append("%d:%s" % (0 if prev == 0 else rng.choice([50, 300, 2000]), data[prev:cpos].hex()))
                            prev = cpos
                    conns.append(",".join(plan))
                    metas.append(reqs)
                flav = proto + ("6" if rng.random() < 0.4 else "")      # some runs over the IPv6 loopback
                line = "CONC %s %d %s" % (flav, rng.choice([2, 4, 8]), "|".join(conns))
                cs.append(Case(line, {"k": "conc", "proto": proto, "conns": [[(t, u, mb.show_req(r)) for t, u, r in m] for m in metas], "n": nconn, "idle": sorted(idle)}))
        # the peer address handed to the service factory by accept_tcp_connection: IPv4, IPv6 loopback / unspecified, IPv4-mapped and
        # IPv4-compatible IPv6, link-local with scope, ordinary global addresses; boundary ports
        addrs = ["127.0.0.1", "0.0.0.0", "255.255.255.255", "10.1.2.3", "[::1]", "[::]", "[::ffff:1.2.3.4]", "[::1.2.3.4]", "[::0.0.0.2]",
                 "[fe80::1%3]", "[2001:db8::7]", "[ffff:ffff:ffff:ffff:ffff:ffff:ffff:ffff]", "[::ffff:0:1]", "[64:ff9b::102:304]"]
        for _ in range(10 if tier == "quick" else 200):
            addrs.append("[%s]" % ":".join("%x" % rng.choice([0, 0, 1, 0xffff, rng.randrange(65536)]) for _ in range(8)))
            addrs.append(".".join(str(rng.randrange(256)) for _ in range(4)))
        for a in addrs:
            for port in (0, 1, 502, 65535, rng.randrange(65536)):
                for proto in ("tcp", "rtu"):
                    cs.append(Case("ACCADDR %s %s:%d" % (proto, a, port), {"k": "accaddr", "proto": proto}))
        # every connection gets its own service instance even when other peers reset their connection while it was still queued
        # in the listen backlog (`k`), were rejected (`r`) or misbehave (`b`)
        for _ in range(12 if tier == "quick" else 120):
            evs = [rng.choice(["s", "k", "k", "r", "b"]) for _ in range(rng.randrange(2, 8))] + ["s"]
            for proto in ("tcp", "rtu"):
                good = cligen.frame(proto, 1, 1, b"\x11").hex()
                bad = (b"\x00\x01\x00\x01\x00\x02\x01\x11" if proto == "tcp" else bytes([0x00, 0x80] * 13)).hex()
                cs.append(Case("ACCEPT %s %s %s %s" % (proto, good, bad, ",".join(evs + ["a"])), {"k": "accept", "proto": proto, "evs": evs}))
        cs += survive_cases(rng, tier)
        cs += conn_cases(rng, tier)
        # spread the slow concurrent runs evenly over the shards
        conc = [c for c in cs if c.meta["k"] == "conc"]
        rest = [c for c in cs if c.meta["k"] != "conc"]
        step = max(1, len(rest) // max(1, len(conc)))
        out = []
        for i, c in enumerate(conc):
            out.append(c)
            out += rest[i * step:(i + 1) * step]
        out += rest[len(conc) * step:]
        return out

    def followup(self, cases, rng, tier):
        # every connection's stream through the model of one connection
        out = []
        if any(c.meta["k"] == "srv" for c in cases):
            return out
        for c in cases:
            if c.meta["k"] != "conc" or not c.impl or " | " not in c.impl and "sent=" not in c.impl:
                continue
            body = c.impl.split(" ; factory_extra=")[0]
            for part, reqs in zip(body.split(" | "), c.meta["conns"]):
                f = dict(x.split("=") for x in part.split(" "))
                svc = []
                for t, u, r in reqs:
                    rep = rule_reply(mb.parse_req(r))
                    svc.append("r=" + mb.show_rsp(rep[1]) if rep[0] == "rsp" else ("n" if rep[0] == "none" else "x=%d" % rep[1]))
                if f["sent"] == "-":
                    continue
                out.append(Case("SRV %s d%s - - %s" % (c.meta["proto"], f["sent"], ",".join(svc)), {"k": "srv", "recv": f["recv"]}))
        return out

    def project(self, case, s):
        if case.meta["k"] == "conc":
            return "CONC"       # the model has no concurrent run; its per-connection predictions are the follow-up cases
        return s

    def oracle(self, c):
        r = c.impl or ""
        if c.meta["k"] == "conc" and c.meta.get("on_model"):
            return None
        if "PANIC" in r or "CRASH" in r or "NORESULT" in r or r.startswith("ERR"):
            return "failure: %s" % r[:80]
        if c.meta["k"] == "accept":
            want = sum(1 for e in c.meta["evs"] if e in ("s", "b", "k"))
            return None if r.startswith("served=%d " % want) and r.endswith(" ABORTED") else "accept loop: %s; %d connections must each get a service instance (events %s)" % (r[:60], want, ",".join(c.meta["evs"]))
        if c.meta["k"] == "survive":
            return survive_oracle(c)
        if c.meta["k"] == "pipe":
            return conn_oracle(c)
        if c.meta["k"] == "accaddr":
            return None if r.endswith(" n=1 same=1") else "accept_tcp_connection did not create the service with the peer's address exactly once: %s" % r[:80]
        if c.meta["k"] == "srv":
            if c.meta.get("on_model"):
                ws = "".join(t[2:] for t in r.split(",") if t.startswith("W:")) or "-"
                return None if ws == c.meta["recv"] else "model of one connection predicts replies %s, the concurrent server sent %s" % (ws[:80], c.meta["recv"][:80])
            return None
        if c.meta.get("on_model"):
            return None
        body, extra = r.split(" ; factory_extra=")
        if extra != "0":
            return "service factory invoked %s times more than there are connections" % extra
        parts = body.split(" | ")
        if len(parts) != len(c.meta["conns"]):
            return "connection count"
        for ci, (part, reqs) in enumerate(zip(parts, c.meta["conns"])):
            f = dict(x.split("=") for x in part.split(" "))
            want = b""
            for t, u, rq in reqs:
                req = mb.parse_req(rq)
                rep = rule_reply(req)
                if rep[0] == "rsp":
                    want += cligen.frame(c.meta["proto"], t, u, mb.spec_rsp_pdu(rep[1]))
                elif rep[0] == "exc":
                    want += cligen.frame(c.meta["proto"], t, u, bytes([mb.req_fc(req) + 0x80, rep[1]]))
            if mb.unhex(f["recv"]) != want:
                return "connection %d received %s, its own replies in order are %s" % (ci, f["recv"][:80], want.hex()[:80])
            if f["addr"] != "1":
                return "connection %d: service factory saw its peer address %s times" % (ci, f["addr"])
            if want and ci not in c.meta.get("idle", []) and c.meta.get("idle") and int(f.get("ms", "0")) > 1200:
                return "connection %d got its last reply after %s ms while other connections sat idle for 1500 ms: it was held up by them" % (ci, f["ms"])
        return None

    def nontrivial(self, c):
        return c.meta["k"] in ("conc", "pipe")
