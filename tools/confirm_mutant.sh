#!/bin/sh
# usage: tools/confirm_mutant.sh <name> <dir with patch.diff + mutant_demo.rs>
# Confirms in a fresh scratch worktree of /repo: demo passes without the change; with the change the crate
# builds with all features, the pinned suite passes (90), and the demo fails.  Prints a JSON summary.
set -u
NAME="$1"; SRC="$2"
WT=/tmp/confirm/wt    # fixed path + shared target dir: dependencies are compiled once per session
git -C /repo worktree remove --force "$WT" 2>/dev/null; rm -rf "$WT"; mkdir -p /tmp/confirm
git -C /repo worktree add -q --detach "$WT" HEAD || exit 2
export CARGO_NET_OFFLINE=true CARGO_TARGET_DIR=/tmp/confirm/target
cd "$WT"
mkdir -p tests; cp "$SRC/mutant_demo.rs" tests/mutant_demo.rs
base_demo=$(cargo test --offline --all-features --test mutant_demo 2>&1 | grep -E "^test result" | tail -1)
git apply "$SRC/patch.diff" || { echo "PATCH DOES NOT APPLY"; git -C /repo worktree remove --force "$WT"; exit 2; }
build=$(cargo build --offline --all-features 2>&1 | tail -1)
suite=$(cargo test --offline --lib 2>&1 | grep -E "^test result" | head -1)
mut_demo=$(cargo test --offline --all-features --test mutant_demo 2>&1 | grep -E "^test result" | tail -1)
cd /
git -C /repo worktree remove --force "$WT"
echo "{\"name\": \"$NAME\", \"demo_without_change\": \"$base_demo\", \"build_all_features\": \"$build\", \"pinned_suite_with_change\": \"$suite\", \"demo_with_change\": \"$mut_demo\"}"
