"""C16 -- abandoned and timed-out calls leave a usable, uncorrupted client."""
from runner import Prop
from vlib import Case
import mb, cligen


def parse_frames(proto, stream):
    """split a byte stream into whole frames; returns (frames, rest) or None if malformed"""
    frames, pos = [], 0
    if proto == "tcp":
        while pos + 7 <= len(stream):
            ln = stream[pos + 4] << 8 | stream[pos + 5]
            if ln == 0 or stream[pos + 2] or stream[pos + 3]:
                return None
            if pos + 6 + ln > len(stream):
                break
            frames.append(bytes(stream[pos:pos + 6 + ln]))
            pos += 6 + ln
        return frames, bytes(stream[pos:])
    # rtu: all requests used here are 8-byte frames (fc 1..6)
    while pos + 8 <= len(stream):
        fr = bytes(stream[pos:pos + 8])
        if mb.rtu_frame(fr[0], fr[1:6]) != fr:
            return None
        frames.append(fr)
        pos += 8
    return frames, bytes(stream[pos:])


class PROP(Prop):
    id = "C16"
    profiles = ["debug"]
    shard_min = 8
    rule = ("a call future dropped at EVERY poll index it reaches (pending points in the write, flush and read phases), for write granularities "
            "{1,3,all} x pending patterns, with and without a late reply to the abandoned request, followed by one or two normal exchanges; a call dropped in the receive phase after EVERY proper prefix of its reply "
            "(short reply, reply announcing a 250-byte frame) has already been read; TCP and "
            "RTU; the synchronous client with a timeout against silent / slow / prompt scripted peers is explored by ./check C17's harness ops "
            "(SYNC) and compared here on results.  Oracle: the bytes accepted by the transport over the client's lifetime are a prefix-closed "
            "concatenation of whole request frames (all whole once a later call completes); the call after an abandoned one returns its own "
            "reply; over TCP a late reply to the abandoned request is never returned as success.  non-trivial = the future was dropped")

    def cases(self, rng, tier):
        cs = []
        for proto in ("tcp", "rtu"):
            for gran in (1, 3, 1000):
                for wp in ("none", "every", "alt"):
                    for fl in ("-", "p,ok", "p,p,ok"):
                        for late in (False, True):
                            for rp in (0, 1, 2):
                                slave = rng.randrange(1, 248)
                                req0 = ("RHR", rng.randrange(65536), 1)
                                frame0 = cligen.frame(proto, 0, slave, mb.spec_req_pdu(req0))
                                n = (len(frame0) + gran - 1) // gran
                                ev = []
                                for i in range(n):
                                    if wp == "every" or (wp == "alt" and i % 2 == 0):
                                        ev.append("p")
                                    ev.append("a%d" % gran)
                                W = ",".join(ev)
                                npend = ev.count("p") + fl.count("p") + rp
                                R0 = ",".join(["p"] * rp) if rp else "-"
                                maxdrop = npend if tier == "thorough" or npend <= 6 else None
                                drops = range(0, npend + 1) if maxdrop is not None else sorted(set([0, 1, 2, npend // 2, npend - 1, npend]))
                                for drop in drops:
                                    ops = [cligen.call_op(req0, W=W, F=fl, R=R0, drop=str(drop))]
                                    exp = [None]
                                    # next calls
                                    for j in (1, 2):
                                        reqj = ("RHR", rng.randrange(65536), 1)
                                        val = rng.randrange(65536)
                                        good = cligen.frame(proto, j, slave, mb.spec_rsp_pdu(("RHR", [val])))
                                        evs = []
                                        if late and j == 1:
                                            # the late reply to the abandoned request arrives first
                                            evs.append("d" + cligen.frame(proto, 0, slave, mb.spec_rsp_pdu(("RHR", [0xDEAD])) if rng.random() < 0.6 else bytes([0x83, rng.randrange(1, 12)])).hex())
                                            exp.append("late")
                                        else:
                                            exp.append("OK:RHR:%d" % val)
                                        evs.append("d" + good.hex())
                                        ops.append(cligen.call_op(reqj, R=",".join(evs)))
                                    # every other time the caller selects the same slave again after the abandoned call (the usual polling
                                    # pattern `set_slave(); read()`): that changes nothing about the ids, so the late reply is still a mismatch
                                    resel = rng.random() < 0.5
                                    if resel:
                                        ops.insert(1, "slave %d" % slave)
                                    cs.append(Case(cligen.cli_line(proto, slave, ops), {"proto": proto, "drop": drop, "npend": npend, "late": late, "exp": exp, "slave": slave, "resel": resel}))
        # a long-lived TCP client: after more than a whole cycle of the 16-bit transaction id a call is abandoned while it waits for its
        # reply; the late reply must still be told apart from the next call's own reply (a header mismatch, never success)
        slave = rng.randrange(1, 248)
        ops = []
        nlong = 65536 + rng.randrange(3, 40)
        for j in range(nlong):
            ops.append(cligen.call_op(("RHR", j & 0xFFFF, 1), R="d" + cligen.frame("tcp", j & 0xFFFF, slave, bytes([3, 2, 0, 7])).hex()))
        ops.append(cligen.call_op(("RHR", 1, 1), R="p", drop="0"))
        late = cligen.frame("tcp", nlong & 0xFFFF, slave, mb.spec_rsp_pdu(("RHR", [0xDEAD])))
        good = cligen.frame("tcp", (nlong + 1) & 0xFFFF, slave, mb.spec_rsp_pdu(("RHR", [0xBEEF])))
        ops.append(cligen.call_op(("RHR", 2, 1), R="d%s,d%s" % (late.hex(), good.hex())))
        cs.append(Case(cligen.cli_line("tcp", slave, ops), {"proto": "tcp", "drop": 0, "npend": 1, "late": True, "longlate": nlong, "exp": [], "slave": slave}))
        # abandoned in the RECEIVE phase after a fragment of the reply has already been read: the fragment must not be taken for
        # (the start of) the next call's reply -- every fragment length of a short reply and of a reply announcing a long frame
        for proto in ("tcp", "rtu"):
            for rsp0 in (("RHR", [0xAAAA]), ("RHR", [0x1111] * 125), ("RC", [True] * 9)):
                slave = rng.randrange(1, 248)
                req0 = ("RHR", rng.randrange(65536), len(rsp0[1])) if rsp0[0] == "RHR" else ("RC", 5, len(rsp0[1]))
                reply0 = cligen.frame(proto, 0, slave, mb.spec_rsp_pdu(rsp0))
                ks = range(1, len(reply0)) if len(reply0) < 20 else sorted(set([1, 2, 3, 4, 6, 7, 8, 9, 10, 21, 22, 40, len(reply0) - 1] + ([rng.randrange(1, len(reply0)) for _ in range(20)] if tier == "thorough" else [])))
                for k in ks:
                    for split in (False, True):
                        frag = reply0[:k]
                        R0 = ("d" + frag.hex() + ",p") if not split or k < 2 else ("d%s,p,d%s,p" % (frag[:k // 2].hex(), frag[k // 2:].hex()))
                        drop = R0.count("p") - 1
                        ops = [cligen.call_op(req0, R=R0, drop=str(drop))]
                        exp = [None]
                        for j in (1, 2):
                            reqj = ("RHR", rng.randrange(65536), 1)
                            val = rng.randrange(65536)
                            good = cligen.frame(proto, j, slave, mb.spec_rsp_pdu(("RHR", [val])))
                            exp.append("OK:RHR:%d" % val)
                            ops.append(cligen.call_op(reqj, R="d" + good.hex()))
                        cs.append(Case(cligen.cli_line(proto, slave, ops), {"proto": proto, "drop": drop, "npend": drop, "late": False, "exp": exp, "slave": slave, "frag": k}))
        sync_cases = []
        # synchronous client with a timeout against prompt / slow / silent peers (real loopback TCP, real pty)
        for proto in ("tcp", "rtu"):
            for rep in range(3 if tier == "quick" else 15):
                for scen in (["prompt"], ["silent", "prompt"], ["slow_ok", "prompt"], ["silent", "silent", "prompt"], ["late", "prompt", "prompt"]):
                    slave = rng.randrange(1, 248)
                    ops, exp = [], []
                    for i, sc in enumerate(scen):
                        val = rng.randrange(65536)
                        # the generic call and every typed method alike (each of them has to run under the context's timeout)
                        kind = rng.choice(["call", "call", "RHR", "RIR", "WSR", "WSC", "MWR", "WMR", "RC"]) if "late" not in scen else "call"
                        if kind in ("call", "RHR"):
                            req, rsp, ok = ("RHR", rng.randrange(65536), 1), ("RHR", [val]), ("OK:RHR:%d" % val if kind == "call" else "W:%d" % val)
                        elif kind == "RIR":
                            req, rsp, ok = ("RIR", rng.randrange(65536), 1), ("RIR", [val]), "W:%d" % val
                        elif kind == "WSR":
                            req, rsp, ok = ("WSR", 7, val), ("WSR", 7, val), "U"
                        elif kind == "WSC":
                            req, rsp, ok = ("WSC", 7, True), ("WSC", 7, True), "U"
                        elif kind == "MWR":
                            req, rsp, ok = ("MWR", 7, val, 3), ("MWR", 7, val, 3), "U"
                        elif kind == "WMR":
                            req, rsp, ok = ("WMR", 7, [val, 2]), ("WMR", 7, 2), "U"
                        else:
                            req, rsp, ok = ("RC", 7, 3), ("RC", [True, False, True, False, False, False, False, False]), "B:101"
                        verb = "call" if kind == "call" else "typed"
                        fr = cligen.frame(proto, i, slave, mb.spec_rsp_pdu(rsp)).hex()
                        if sc == "prompt":
                            ops.append("%s %s r%s" % (verb, mb.show_req(req), fr)); exp.append(ok)
                        elif sc == "silent":
                            ops.append("%s %s s" % (verb, mb.show_req(req))); exp.append("T:TimedOut")
                        elif sc == "slow_ok":
                            ops.append("%s %s w150:%s" % (verb, mb.show_req(req), fr)); exp.append(ok)
                        elif sc == "late":
                            ops.append("%s %s w1500:%s" % (verb, mb.show_req(req), fr)); exp.append("T:TimedOut")
                    if "late" in scen:
                        # the late reply is what the next call reads first
                        exp[1] = "late"; exp[2] = "any"
                    sync_cases.append(Case("SYNC %s 1000 %d %s" % (proto, slave, " ; ".join(ops)), {"proto": proto, "sync": True, "exp": exp, "scen": scen}))
                    # the same with the timeout installed after connecting (set_timeout), and switched off again at the end
                    if rep == 0:
                        ops2 = ["timeout 1000"] + ops + ["timeout -"]
                        sync_cases.append(Case("SYNC %s - %d %s" % (proto, slave, " ; ".join(ops2)), {"proto": proto, "sync": True, "exp": ["ok t=1000"] + exp + ["ok t=-"], "scen": ["set"] + scen + ["reset"]}))
        # spread the slow live cases evenly over the shards
        step = max(1, len(cs) // (len(sync_cases) + 1))
        for i, sc in enumerate(sync_cases):
            cs.insert(min(len(cs), (i + 1) * step + i), sc)
        return cs

    def oracle(self, c):
        m = c.meta
        if m.get("sync"):
            r = c.impl or ""
            if "PANIC" in r or r.startswith("CONNECT") or r.startswith("ERR") or "NORESULT" in r or "CRASH" in r:
                return "sync client failure: %s" % r[:80]
            if "timing_ok=0" in r:
                return "synchronous call blocked far beyond its timeout"
            rs = [x.split(" rx=")[0] for x in r.split(" ; ")[:-1]]
            for i, (got, want) in enumerate(zip(rs, m["exp"])):
                if want == "any":
                    continue
                if want == "late":
                    if got.startswith("OK:") and m["proto"] == "tcp":
                        return "late reply to the timed-out request returned as success: %s" % got
                    continue
                if got != want:
                    return "synchronous call %d (%s): %s, want %s" % (i, m["scen"][i], got[:60], want)
            return None
        rs = cligen.split_results(c.impl)
        if m.get("longlate"):
            if "PANIC" in (c.impl or "") or len(rs) != m["longlate"] + 2:
                return "long-lived client: panic / result count %d" % len(rs)
            bad = [i for i, x in enumerate(rs[:m["longlate"]]) if not x.startswith("OK:RHR:7")]
            if bad:
                return "long-lived client: exchange %d returned %s" % (bad[0], rs[bad[0]][:60])
            last = cligen.res_and_w(rs[-1])[0]
            if last.startswith("OK:"):
                return "after %d exchanges: the late reply to the abandoned request was returned as success: %s" % (m["longlate"], last[:60])
            return None if last.startswith("HM:") else "after %d exchanges: the late reply was not reported as a header mismatch: %s" % (m["longlate"], last[:60])
        if m.get("resel"):
            if len(rs) != 4 or rs[1].strip() != "ok":
                return "selecting the slave again after the abandoned call: %s" % (c.impl or "")[:80]
            rs = [rs[0]] + rs[2:]
        if len(rs) != 3:
            return "result count: %s" % (c.impl or "")[:80]
        stream = bytearray()
        results = []
        for r in rs:
            res, w = cligen.res_and_w(r)
            if "PANIC" in res:
                return "panic"
            stream += w
            results.append(res)
        pf = parse_frames(m["proto"], stream)
        if pf is None:
            return "bytes that reached the transport are not a concatenation of whole request frames: %s" % bytes(stream).hex()[:100]
        frames, rest = pf
        completed_later = results[1] not in ("WAIT", "ABANDONED")
        if completed_later and rest:
            return "a later call completed but the transport holds a partial frame: ...%s" % rest.hex()
        abandoned = results[0] in ("ABANDONED", "WAIT")
        if m["exp"][1] == "late":
            if m["proto"] == "tcp" and abandoned and results[1].startswith("OK:"):
                return "late reply to the abandoned request returned as success: %s" % results[1]
            if m["proto"] == "tcp" and abandoned and not results[1].startswith("HM:"):
                return "late reply not reported as a header mismatch: %s" % results[1][:60]
        else:
            if abandoned and results[1] != m["exp"][1]:
                return "call after the abandoned call did not perform a normal exchange: %s, want %s" % (results[1][:60], m["exp"][1])
        if m["exp"][1] != "late" and results[2] != m["exp"][2]:
            return "second call after the abandoned call: %s, want %s" % (results[2][:60], m["exp"][2])
        return None

    def nontrivial(self, c):
        return (c.impl or "").startswith("ABANDONED") or bool(c.meta.get("sync"))

    def distribution(self, cases):
        d = {"abandoned": 0, "completed": 0}
        for c in cases:
            if c.meta.get("sync"):
                d["sync"] = d.get("sync", 0) + 1
                continue
            d["abandoned" if (c.impl or "").startswith("ABANDONED") else "completed"] += 1
        return d
