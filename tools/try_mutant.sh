#!/bin/sh
# usage: tools/try_mutant.sh <patch.diff> [Cxx ...]   -- applies the patch to /repo, runs the given checks
# (default: all 20, quick tier), prints one line per check, and ALWAYS restores /repo afterwards.
set -u
PATCH="$(readlink -f "$1")"; shift
cd "$(dirname "$0")/.."
PROPS="${*:-C01 C02 C03 C04 C05 C06 C07 C08 C09 C10 C11 C12 C13 C14 C15 C16 C17 C18 C19 C20}"
if ! git -C /repo diff --quiet; then echo "/repo has uncommitted changes; refusing"; exit 2; fi
export VERIF_EVIDENCE_DIR=/tmp/evidence-of-mutant-runs
git -C /repo apply "$PATCH" || { echo "patch does not apply"; exit 2; }
trap 'git -C /repo checkout -- . ; echo "(/repo restored)"' EXIT
for p in $PROPS; do
  out=$(./check "$p" --tier quick 2>&1)
  rc=$?
  echo "$p rc=$rc $(echo "$out" | grep -E '^(OK|VIOLATION|KNOWN)' | head -1 | cut -c1-200)"
  [ $rc -ne 0 ] && echo "$out" | grep -E '^  (failing input|impl|oracle|broken)' | cut -c1-220
done
