"""vlib -- infrastructure shared by all property checks: builds, sharded execution of the
implementation harness and of the extracted model, in-kernel cross-check, proof step,
comparison, verdict, evidence and replay files."""
import hashlib, json, os, random, re, subprocess, sys, time
from concurrent.futures import ThreadPoolExecutor

VERIF = os.path.dirname(os.path.dirname(os.path.abspath(__file__)))
REPO = os.environ.get("VERIF_REPO", "/repo")
CACHE = os.path.join(VERIF, ".cache")
COQ = os.path.join(VERIF, "coq")
TARGET = os.path.join(CACHE, "target")
OCAML = os.path.join(CACHE, "ocaml")
NPROC = 16
SHARD_MIN = [50]    # minimal number of cases per shard (live, slow cases use 1)
ENV = dict(os.environ, CARGO_NET_OFFLINE="true", CARGO_TARGET_DIR=TARGET)

TRUSTED_BASE = [
    "Coq 8.16.1 kernel incl. vm_compute (no native_compute); no axioms: every property theorem is 'Closed under the global context' (checked by Print Assumptions on this run)",
    "hand-written Gallina model of src/{codec,frame,service,client,server,slave}; tokio-util FramedImpl, futures-util send, std from_str_radix modelled by hand (modelled, not verified)",
    "tools/translate.py (strict regex translator of the table-like and straight-line Rust code -- function/exception code tables, RTU length tables, PDU size tables, constants, the PDU encoders and decoders as put / read programs, the four frame encoders, the typed client methods, the blocking client's methods -- into Gallina data, regenerated on every run; its obligations gen/Ob*.v are re-proved each run; a piece it cannot parse is skipped and reported in coverage.source_translation.skipped)",
    "correspondence check: Rust harness (scripted transport, panic capture, printers), OCaml driver, Python generators/oracles",
    "Coq extraction with ExtrOcamlBasic only (bool/option/unit/list/prod/sumbool directives); cross-checked by in-kernel vm_compute on a sample each run; OCaml 4.13.1",
    "rustc/cargo, the safety of safe Rust; tokio runtime, sockets, ptys, timers, allocator are not modelled",
]


class CheckError(Exception):
    pass


def sh(cmd, cwd=None, timeout=3600, env=None, inp=None):
    p = subprocess.run(cmd, cwd=cwd, shell=isinstance(cmd, str), capture_output=True, text=True,
                       timeout=timeout, env=env or ENV, input=inp)
    return p.returncode, p.stdout, p.stderr


# ------------------------------------------------------------------------------------------
# builds
# ------------------------------------------------------------------------------------------
def build_coq(targets=None):
    """(Re)build the Coq development (full .vo).  Returns (ok, log)."""
    mk, cp = os.path.join(COQ, "Makefile"), os.path.join(COQ, "_CoqProject")
    if not os.path.exists(mk) or os.path.getmtime(mk) < os.path.getmtime(cp):
        rc, o, e = sh("coq_makefile -f _CoqProject -o Makefile", cwd=COQ)
        if rc != 0:
            return False, o + e
    tgt = " ".join(targets) if targets else ""
    rc, o, e = sh(f"timeout 3000 make -j{NPROC} {tgt}", cwd=COQ, timeout=3100)
    return rc == 0, o + e


def build_driver():
    os.makedirs(OCAML, exist_ok=True)
    src = [os.path.join(COQ, "model.ml"), os.path.join(COQ, "model.mli"), os.path.join(VERIF, "ocaml", "driver.ml")]
    exe = os.path.join(OCAML, "driver")
    for s in src:
        if not os.path.exists(s):
            return False, f"missing {s} (run make in coq/)"
    if os.path.exists(exe) and all(os.path.getmtime(exe) >= os.path.getmtime(s) for s in src):
        return True, ""
    for s in src:
        subprocess.run(["cp", s, OCAML], check=True)
    rc, o, e = sh("ocamlfind ocamlopt -w -a model.mli model.ml driver.ml -o driver", cwd=OCAML)
    return rc == 0, o + e


def build_harness(profile):
    flag = "--release" if profile == "release" else ""
    lock = os.path.join(VERIF, "harness", "Cargo.lock")
    if not os.path.exists(lock):
        subprocess.run(["cp", os.path.join(REPO, "Cargo.lock"), lock], check=True)
    rc, o, e = sh(f"cargo build --offline {flag}", cwd=os.path.join(VERIF, "harness"), timeout=1800)
    return rc == 0, o + e


def harness_exe(profile):
    return os.path.join(TARGET, "release" if profile == "release" else "debug", "tmverif-harness")


# ------------------------------------------------------------------------------------------
# sharded execution
# ------------------------------------------------------------------------------------------
def _run_shard(cmd, lines, timeout):
    if not lines:
        return []
    p = subprocess.run(cmd, input="\n".join(lines) + "\n", capture_output=True, text=True, timeout=timeout, env=ENV)
    out = p.stdout.split("\n")
    if out and out[-1] == "":
        out.pop()
    if len(out) != len(lines):
        # the process died (abort, stack overflow, kill): mark the first unanswered case
        out = out + ["CRASH rc=%d %s" % (p.returncode, p.stderr[-200:].replace("\n", " "))] + ["NORESULT"] * (len(lines) - len(out) - 1)
    return out


def run_sharded(cmd, lines, timeout=1800, shards=NPROC):
    n = len(lines)
    if n == 0:
        return []
    shards = max(1, min(shards, (n + SHARD_MIN[0] - 1) // SHARD_MIN[0]))
    size = (n + shards - 1) // shards
    parts = [lines[i:i + size] for i in range(0, n, size)]
    with ThreadPoolExecutor(max_workers=len(parts)) as ex:
        res = list(ex.map(lambda p: _run_shard(cmd, p, timeout), parts))
    return [x for r in res for x in r]


def run_impl(lines, profile="debug", errno=None, shards=NPROC, timeout=1800):
    """returns list of (result, peak_heap_bytes)"""
    cmd = [harness_exe(profile)]
    if errno is not None:
        cmd += ["--errno", str(errno)]
    out = run_sharded(cmd, lines, timeout=timeout, shards=shards)
    res = []
    for o in out:
        f = o.split("\t")
        if len(f) >= 3:
            res.append((f[0], int(f[1]) if f[1].isdigit() else 0, None if f[2] == "-" else f[2]))
        elif len(f) == 2:
            res.append((f[0], int(f[1]) if f[1].isdigit() else 0, None))
        else:
            res.append((o, 0, None))
    return res


def rechunk_line(line, delivered):
    """Rewrite the data events of a CLI/SRV case line so that they are the chunks the transport actually
    delivered (a scripted chunk larger than the capacity offered by tokio-util is delivered in pieces)."""
    act = [bytes.fromhex(x) for x in delivered.split(",") if x and x != "-"]
    toks = line.split(" ")
    ai = 0

    def rewrite(script):
        nonlocal ai
        if script == "-":
            return script
        out = []
        for ev in script.split(","):
            if ev.startswith("d") and ev != "d" and all(ch in "0123456789abcdef" for ch in ev[1:]):
                want = bytes.fromhex(ev[1:])
                got = b""
                pieces = []
                while ai < len(act) and len(got) < len(want) and want.startswith(got + act[ai]):
                    got += act[ai]
                    pieces.append("d" + act[ai].hex())
                    ai += 1
                if got == want:
                    out += pieces
                else:
                    rest = want[len(got):]
                    out += pieces + (["d" + rest.hex()] if rest else [])
            else:
                out.append(ev)
        return ",".join(out)

    if toks[0] == "SRV":
        toks[2] = rewrite(toks[2])
    elif toks[0] == "CLI":
        i = 3
        while i < len(toks):
            if toks[i] in ("call", "typed") and i + 5 < len(toks) + 0:
                toks[i + 4] = rewrite(toks[i + 4])
                i += 6
            else:
                i += 1
    return " ".join(toks)


def run_model(lines, profile="debug", timeout=1800):
    # deep (non tail-recursive) list functions of the extracted model need a big stack on long histories
    cmd = ["sh", "-c", 'ulimit -s unlimited 2>/dev/null || ulimit -s 4000000 2>/dev/null; exec "$0" "$@"',
           os.path.join(OCAML, "driver")] + (["--release"] if profile == "release" else [])
    return run_sharded(cmd, lines, timeout=timeout)


def coq_escape(s):
    return s.replace('"', '""')


def run_model_in_kernel(lines, profile="debug"):
    """Evaluate case lines inside Coq with vm_compute (cross-check of the extraction)."""
    if not lines:
        return []
    d = os.path.join(CACHE, "kernel")
    os.makedirs(d, exist_ok=True)
    name = "Sample_%d_%d" % (os.getpid(), random.randrange(1 << 30))
    path = os.path.join(d, name + ".v")
    mode = "release_mode" if profile == "release" else "debug_mode"
    with open(path, "w") as f:
        f.write("From Coq Require Import String.\nFrom TM Require Import Base Run.\nOpen Scope string_scope.\nSet Printing Width 1000000.\nSet Printing Depth 1000000.\n")
        for l in lines:
            f.write('Eval vm_compute in run_line_s %s "%s".\n' % (mode, coq_escape(l)))
    rc, o, e = sh(["coqc", "-noglob", "-Q", os.path.join(COQ, "model"), "TM", path], timeout=900)
    for ext in (".v", ".vo", ".vok", ".vos"):
        try:
            os.remove(os.path.join(d, name + ext))
        except OSError:
            pass
    if rc != 0:
        raise CheckError("in-kernel evaluation failed: " + (o + e)[-500:])
    res = re.findall(r'^\s*= "(.*)"$', o, flags=re.M)
    res = [r.replace('""', '"') for r in res]
    if len(res) != len(lines):
        raise CheckError("in-kernel evaluation: %d results for %d cases" % (len(res), len(lines)))
    return res


# ------------------------------------------------------------------------------------------
# proof step
# ------------------------------------------------------------------------------------------
FORBIDDEN = re.compile(r"\b(Admitted|admit|Axiom|Axioms|Parameter|Parameters|Conjecture|Admit Obligations|bypass_check|type-in-type|impredicative-set)\b|Unset\s+(Guard|Positivity|Universe)")


def grep_forbidden():
    hits = []
    for root, _, files in os.walk(COQ):
        for fn in files:
            if fn.endswith(".v"):
                p = os.path.join(root, fn)
                txt = open(p).read()
                txt = re.sub(r"\(\*.*?\*\)", "", txt, flags=re.S)
                for m in FORBIDDEN.finditer(txt):
                    hits.append("%s: %s" % (os.path.relpath(p, VERIF), m.group(0)))
    return hits


def theorems_of(prop):
    p = os.path.join(COQ, "props", prop + ".v")
    if not os.path.exists(p):
        return []
    txt = re.sub(r"\(\*.*?\*\)", "", open(p).read(), flags=re.S)
    return re.findall(r"^\s*Theorem\s+(\w+)", txt, flags=re.M)


def translate_step():
    """Regenerate coq/gen/Generated.v from the Rust source under REPO (tools/translate.py).  Returns its JSON summary."""
    rc, o, e = sh([sys.executable, os.path.join(VERIF, "tools", "translate.py"), REPO, os.path.join(COQ, "gen", "Generated.v")], timeout=120)
    try:
        return json.loads(o.strip().split("\n")[-1])
    except ValueError:
        # the translator itself failed: no piece is translated (the model's own tables stand in, nothing is claimed by this tie in this run)
        sh([sys.executable, os.path.join(VERIF, "tools", "translate.py"), "/nonexistent-repo", os.path.join(COQ, "gen", "Generated.v")], timeout=120)
        return dict(error=(o + e)[-400:], translated={}, skipped={"*": "translator failed: " + (o + e)[-200:]})


def gen_theorems_of(prop):
    p = os.path.join(COQ, "gen", "Ob%s.v" % prop)
    if not os.path.exists(p):
        return []
    txt = re.sub(r"\(\*.*?\*\)", "", open(p).read(), flags=re.S)
    return re.findall(r"^\s*Theorem\s+(\w+)", txt, flags=re.M)


def proof_step(prop):
    """Regenerate the translated tables from the source, build props/<prop>.vo and everything it needs, build the
    obligations gen/Ob<prop>.v (generated table = model table) when the property has some, then print the assumptions
    of every theorem.  Returns dict(ok, obligations, discharged, detail, broken, translation)."""
    t0 = time.time()
    res = dict(ok=False, obligations=0, discharged=0, detail="", broken=[], assumptions={})
    res["translation"] = translate_step()
    hits = grep_forbidden()
    if hits:
        res["detail"] = "forbidden constructs: " + "; ".join(hits[:5])
        res["broken"] = ["forbidden-construct-grep"]
        return res
    thms = theorems_of(prop)
    res["obligations"] = len(thms)
    if not thms:
        res["detail"] = "no props file / no theorems for " + prop
        res["broken"] = ["props/%s.v" % prop]
        return res
    ok, log = build_coq(["props/%s.vo" % prop, "extract/Extract.vo"])
    if not ok:
        res["detail"] = "coq build failed: " + log[-1500:]
        m = re.findall(r'File "\./([^"]+)", line (\d+)', log)
        res["broken"] = ["%s:%s" % x for x in m[:3]] or ["coq-build"]
        return res
    # the obligations that tie the tables REGENERATED from the source to the model's tables
    gthms = gen_theorems_of(prop)
    gen_ok = True
    if gthms:
        gen_ok, glog = build_coq(["gen/Ob%s.vo" % prop])
        if not gen_ok:
            m = re.findall(r'File "\./([^"]+)", line (\d+)', glog)
            where = ["%s:%s" % x for x in m[:3]] or ["gen/Ob%s.v" % prop]
            # name the obligation that failed
            names = []
            for f, ln in m[:3]:
                try:
                    lines = open(os.path.join(COQ, f)).read().split("\n")[:int(ln)]
                    t = [re.match(r"\s*Theorem\s+(\w+)", l) for l in lines]
                    t = [x.group(1) for x in t if x]
                    if t:
                        names.append(t[-1])
                except (OSError, ValueError):
                    pass
            res["broken"].append("source-translation(%s): the table translated from the source differs from the model's" % ",".join(names or where))
            res["detail"] = "translated table differs from the model: " + glog[-600:]
        res["obligations"] += len(gthms)
    d = os.path.join(CACHE, "kernel")
    os.makedirs(d, exist_ok=True)
    name = "Assum_%s_%d" % (prop, os.getpid())
    path = os.path.join(d, name + ".v")
    if gthms and gen_ok:
        thms = thms + gthms
    with open(path, "w") as f:
        f.write("From TM Require Import %s.\n" % prop)
        if gthms and gen_ok:
            f.write("From TM Require Import Ob%s.\n" % prop)
        for t in thms:
            f.write('Print Assumptions %s.\n' % t)
    args = ["coqc", "-noglob"]
    for sub in ("model", "proofs", "props", "gen"):
        args += ["-Q", os.path.join(COQ, sub), "TM"]
    rc, o, e = sh(args + [path], timeout=600)
    for ext in (".v", ".vo", ".vok", ".vos"):
        try:
            os.remove(os.path.join(d, name + ext))
        except OSError:
            pass
    if rc != 0:
        res["detail"] = "Print Assumptions failed: " + (o + e)[-800:]
        res["broken"] = ["print-assumptions"]
        return res
    chunks = re.split(r"(?=Closed under the global context|Axioms:)", o)
    chunks = [c for c in chunks if c.strip()]
    closed = 0
    for t, c in zip(thms, chunks):
        if c.strip().startswith("Closed under the global context"):
            closed += 1
            res["assumptions"][t] = "Closed under the global context"
        else:
            res["assumptions"][t] = c.strip()[:300]
            res["broken"].append(t)
    if len(chunks) != len(thms):
        res["broken"].append("print-assumptions-count")
    res["discharged"] = closed
    res["ok"] = closed == len(thms) and not res["broken"]
    res["wall_s"] = time.time() - t0
    return res


# ------------------------------------------------------------------------------------------
# cases, comparison, verdict
# ------------------------------------------------------------------------------------------
class Case:
    __slots__ = ("line", "meta", "profile", "impl", "model", "peak", "errno", "model_line")

    def __init__(self, line, meta=None, profile="debug", errno=None):
        self.line = line
        self.meta = meta or {}
        self.profile = profile
        self.errno = errno
        self.impl = None
        self.model = None
        self.peak = 0
        self.model_line = None

    def to_json(self):
        return dict(line=self.line, model_line=self.model_line, profile=self.profile, errno=self.errno, impl=self.impl, model=self.model, meta={k: v for k, v in self.meta.items() if isinstance(v, (str, int, bool, list, type(None)))})


def execute(cases):
    """Run all cases on the implementation and on the model (grouped by profile/errno)."""
    groups = {}
    for c in cases:
        groups.setdefault((c.profile, c.errno), []).append(c)
    for (profile, errno), cs in groups.items():
        lines = [c.line for c in cs]
        ri = run_impl(lines, profile, errno)
        mlines = []
        for c, (a, pk, clip) in zip(cs, ri):
            c.impl, c.peak = a, pk
            c.model_line = rechunk_line(c.line, clip) if clip else None
            if c.meta.get("model_line"):
                c.model_line = c.meta["model_line"]     # a case run by another front end of the harness (serial pty) has its own model line
            mlines.append(c.model_line or c.line)
        rm = run_model(mlines, profile)
        for c, b in zip(cs, rm):
            c.model = b


def ser_norm(s, abort=False):
    """Bring an `SRV` trace (C:..,W:hex,..,WAIT|CLOSED|R:kind) into the form reported for the serial RTU server on a pty
    (`calls|all reply bytes|end`): over a pty the order of invocations and the concatenation of the replies are observable,
    the interleaving of the two is not.  The serial server has no error callback: its report is the value `serve_*` returns."""
    s = s or ""
    if "|" in s or s.startswith("ERR") or s in ("PANIC", "NORESULT") or s.startswith("CRASH"):
        return s
    toks = s.split(",")
    calls = [t for t in toks if t.startswith("C:")]
    w = "".join(t[2:] for t in toks if t.startswith("W:"))
    last = toks[-1]
    end = "E:" + last[2:] if last.startswith("R:") else ("FINISHED" if last == "CLOSED" else last)
    if end == "WAIT" and abort:
        end = "ABORTED"
    return "%s|%s|%s" % (",".join(calls) or "-", w or "-", end)


def load_known():
    p = os.path.join(VERIF, "known_findings.json")
    if not os.path.exists(p):
        return []
    return json.load(open(p))


def known_match(prop, case, what):
    for k in load_known():
        if k.get("status") != "known" or k.get("property") != prop:
            continue
        m = k.get("match", {})
        if "line_regex" in m and not re.search(m["line_regex"], case.line):
            continue
        if "impl_regex" in m and not re.search(m["impl_regex"], case.impl or ""):
            continue
        return k
    return None


def write_replay(prop, kind, broken, cases, seed, tier, extra=None):
    d = os.path.join(VERIF, "replays")
    os.makedirs(d, exist_ok=True)
    body = dict(property=prop, kind=kind, broken=broken, seed=seed, tier=tier,
                cases=[c.to_json() if isinstance(c, Case) else c for c in cases][:50])
    if extra:
        body.update(extra)
    h = hashlib.sha1(json.dumps(body, sort_keys=True).encode()).hexdigest()[:10]
    path = os.path.join(d, "%s-%s.json" % (prop, h))
    body["replay_cmd"] = "./check %s --replay %s" % (prop, path)
    json.dump(body, open(path, "w"), indent=1)
    return path


def write_evidence(prop, tier, seed, t0, proof, coverage_extra, violations, assumptions=None):
    # tools/try_mutant.sh (a run against a deliberately broken tree) redirects its evidence so that evidence/ always describes /repo itself
    evdir = os.environ.get("VERIF_EVIDENCE_DIR") or os.path.join(VERIF, "evidence")
    os.makedirs(evdir, exist_ok=True)
    cov = dict(
        obligations=proof.get("obligations", 0),
        discharged=proof.get("discharged", 0),
        checker_cmd="tools/translate.py (tables regenerated from the Rust source) + make -C coq props/%s.vo gen/Ob%s.vo (coqc 8.16.1, full .vo; the gen target only for C01 C02 C03 C04 C05 C06 C07 C08 C09 C10 C11 C12 C14 C15 C17 C19 C20) + coqc Print Assumptions per theorem; ./check %s --tier %s" % (prop, prop, prop, tier),
        trusted_base=TRUSTED_BASE,
        theorem_assumptions=proof.get("assumptions", {}),
        source_translation=proof.get("translation", {}),
    )
    cov.update(coverage_extra)
    ev = dict(property_id=prop, tier=tier, seed=seed, level="proof", coverage=cov,
              assumptions=assumptions or [], wall_s=round(time.time() - t0, 2), violations=violations)
    json.dump(ev, open(os.path.join(evdir, prop + ".json"), "w"), indent=1)


def ensure_built(profiles):
    ok, log = build_coq(["extract/Extract.vo"])
    if not ok:
        raise CheckError("model does not compile: " + log[-800:])
    ok, log = build_driver()
    if not ok:
        raise CheckError("ocaml driver build failed: " + log[-800:])
    errs = {}
    for p in profiles:
        ok, log = build_harness(p)
        if not ok:
            errs[p] = log[-3000:]
    return errs
