"""C17 -- the blocking client does exactly what the async client does."""
from runner import Prop
from vlib import Case
import mb, cligen


def gen_ops(rng, proto, nops, with_timeout):
    """returns (ops tokens, slave or None)"""
    slave = rng.choice([None, rng.randrange(256)])
    cur = slave if slave is not None else (255 if proto == "tcp" else 0)
    cur0 = cur
    ops, ncall = [], 0
    closed = False
    for _ in range(nops):
        if rng.random() < 0.12:
            # set_timeout / reset_timeout on the blocking context (the async caller wraps its calls accordingly)
            with_timeout = rng.random() < 0.7
            ops.append("timeout %s" % (rng.choice(["800", "1000", "1200"]) if with_timeout else "-"))
            continue
        if rng.random() < 0.2:
            # another device -- or BACK to the one selected when connecting (explicitly, or the default 255 / 0)
            cur = rng.choice([rng.randrange(256), rng.randrange(256), cur0, cur0])
            ops.append("slave %d" % cur)
            continue
        kind = rng.choice(["RC", "RDI", "RHR", "RIR", "RWMR", "WSC", "WSR", "WMC", "WMR", "MWR", "RSI", "CU"])
        req = mb.rnd_req(rng, kind)
        if mb.spec_req_size(req) > 60 or (proto == "rtu" and not cligen.rtu_supported_req(req)):
            req = ("RHR", rng.randrange(65536), rng.randrange(1, 5))
        if req[0] in ("RC", "RDI"):
            req = (req[0], req[1], rng.randrange(1, 30))
        if req[0] in ("RIR", "RHR"):
            req = (req[0], req[1], rng.randrange(1, 10))
        if req[0] == "RWMR":
            req = (req[0], req[1], rng.randrange(1, 6), req[3], req[4])
        if rng.random() < 0.08:
            req = rng.choice([("WMR", rng.randrange(65536), []), ("WMC", rng.randrange(65536), [])])   # empty multi-writes
        elif rng.random() < 0.12:
            # the largest legal quantities (and one below): the blocking client sends them exactly as the async client does
            a = rng.randrange(65536)
            req = rng.choice([("RHR", a, 125), ("RHR", a, 124), ("RIR", a, 125), ("RIR", a, 124), ("RC", a, 2000), ("RDI", a, 2000), ("RWMR", a, 125, a ^ 1, [rng.randrange(65536) for _ in range(121)]),
                              ("RWMR", a, 124, a ^ 1, [7]), ("WMR", a, [rng.randrange(65536) for _ in range(123)]), ("WMC", a, [rng.random() < 0.5 for _ in range(1968)])])
        typed = req[0] not in ("CU", "RSI") and rng.random() < 0.6
        tid = ncall & 0xFFFF
        fc = mb.req_fc(req)
        r = rng.random()
        if closed:
            peer = "s"
        elif r < 0.6:
            rsp = mb.matching_rsp(rng, req)
            if rng.random() < 0.3:
                # a reply of the request's own kind that does NOT answer it: another echoed address / value / quantity, another item count
                k0 = rsp[0]
                if k0 in ("WSR", "WMC", "WMR"):
                    rsp = rng.choice([(k0, rsp[1] ^ 1, rsp[2]), (k0, rsp[1], (rsp[2] + 1) & 0xFFFF)])
                elif k0 == "WSC":
                    rsp = rng.choice([(k0, rsp[1] ^ 1, rsp[2]), (k0, rsp[1], not rsp[2])])
                elif k0 == "MWR":
                    rsp = rng.choice([(k0, rsp[1] ^ 1, rsp[2], rsp[3]), (k0, rsp[1], rsp[3], rsp[2] ^ 0x10), (k0, rsp[1], rsp[2], rsp[3] ^ 1)])
                elif k0 in ("RHR", "RIR", "RWMR"):
                    rsp = (k0, rsp[1][:-1] if rng.random() < 0.5 else rsp[1] + [7])
                elif k0 in ("RC", "RDI"):
                    rsp = (k0, rsp[1][:-8] if len(rsp[1]) > 8 and rng.random() < 0.5 else rsp[1] + [True] * 8)
            pdu = mb.spec_rsp_pdu(rsp)
            if proto == "rtu" and not cligen.rtu_supported_rsp_pdu(pdu):
                pdu = cligen.exc_pdu(fc, 1)
            peer = "r" + cligen.frame(proto, tid, cur, pdu).hex()
        elif r < 0.75:
            peer = "r" + cligen.frame(proto, tid, cur, cligen.exc_pdu(fc, rng.randrange(1, 12))).hex()
        elif r < 0.87:
            # mismatch: other header or other function
            if rng.random() < 0.5:
                peer = "r" + cligen.frame(proto, (tid + 1) & 0xFFFF if proto == "tcp" else tid, cur if proto == "tcp" else (cur + 1) & 0xFF, mb.spec_rsp_pdu(("WSR", 1, 2))).hex()
            else:
                other = ("WSR", 1, 2) if req[0] != "WSR" else ("WMR", 1, 2)
                peer = "r" + cligen.frame(proto, tid, cur, mb.spec_rsp_pdu(other)).hex()
        elif r < 0.93 and with_timeout:
            peer = "s"
        else:
            peer = "c"
            closed = True
        ops.append("%s %s %s" % ("typed" if typed else "call", mb.show_req(req), peer))
        ncall += 1
        if peer == "c":
            break
    return ops, slave


class PROP(Prop):
    id = "C17"
    profiles = ["debug"]
    shard_min = 1
    kernel_sample = 16
    rule = ("random operation sequences over the 13 operations (generic call, five typed reads, five typed writes, slave selection, set_timeout / reset_timeout, connect with and "
            "without explicit slave / timeout, timeouts from Duration::ZERO up to Duration::MAX) against a scripted peer (reply / reply of the same kind with another echo or item count / exception / mismatching reply / silence under a timeout / close), executed with "
            "the real synchronous client AND the real asynchronous client over loopback TCP and over a pseudo-terminal (RTU); both compared with "
            "each other and with the model's prediction, on the frames the peer received and on every result.  non-trivial = sequence with >= 2 "
            "operations")

    def cases(self, rng, tier):
        cs = []
        n = 40 if tier == "quick" else 400
        for proto in ("tcp", "rtu"):
            for i in range(n):
                with_timeout = rng.random() < 0.5
                ops, slave = gen_ops(rng, proto, rng.randrange(1, 7), with_timeout)
                tmo = "1000" if with_timeout else "-"
                body = "%s %s %s %s" % (proto, tmo, "-" if slave is None else str(slave), " ; ".join(ops))
                gid = "%s%d" % (proto, i)
                cs.append(Case("SYNC " + body, {"g": gid, "mode": "sync", "nops": len(ops)}))
                cs.append(Case("ASYNC " + body, {"g": gid, "mode": "async", "nops": len(ops)}))
            # the timeout at the ends of its legal range: the largest Duration (given at connect time or set later) can never fire and
            # behaves like no timeout; a zero timeout is legal too
            for i in range(3 if tier == "quick" else 30):
                while True:
                    ops, slave = gen_ops(rng, proto, rng.randrange(2, 6), False)
                    # no silent peer and no timeout change of its own in these sequences: under a timeout that cannot fire a silent peer
                    # would block for ever (the harness' watchdog would then end the run, which the model does not know about)
                    if not any(o.endswith(" s") or o.startswith("timeout") for o in ops):
                        break
                how = i % 3
                if how == 0:
                    tmo = "max"
                elif how == 1:
                    tmo = "-"
                    ops.insert(rng.randrange(0, len(ops)), "timeout max")
                else:
                    tmo = "1000"
                    ops.insert(rng.randrange(0, len(ops)), "timeout max")
                body = "%s %s %s %s" % (proto, tmo, "-" if slave is None else str(slave), " ; ".join(ops))
                # for the model a timeout that cannot fire is no timeout
                mbody = "%s %s %s %s" % (proto, "-" if tmo == "max" else tmo, "-" if slave is None else str(slave), " ; ".join("timeout -" if o == "timeout max" else o for o in ops))
                gid = "%smax%d" % (proto, i)
                cs.append(Case("SYNC " + body, {"g": gid, "mode": "sync", "nops": len(ops), "model_line": "SYNC " + mbody}))
                cs.append(Case("ASYNC " + body, {"g": gid, "mode": "async", "nops": len(ops), "model_line": "ASYNC " + mbody}))
            # connected without a timeout, the blocking client has none: a reply that takes several seconds is waited for, as by the async client
            if proto == "tcp":
                for i, how in enumerate(["connect", "connect_slave"]):
                    val = rng.randrange(65536)
                    sl = None if how == "connect" else rng.randrange(1, 248)
                    fr = cligen.frame("tcp", 0, 255 if sl is None else sl, mb.spec_rsp_pdu(("RHR", [val]))).hex()
                    body = "tcp - %s call RHR:1:1 w3400:%s" % ("-" if sl is None else str(sl), fr)
                    gid = "tcpslow%d" % i
                    cs.append(Case("SYNC " + body, {"g": gid, "mode": "sync", "nops": 2, "slow": True}))
                    cs.append(Case("ASYNC " + body, {"g": gid, "mode": "async", "nops": 2, "slow": True}))
            # a ZERO timeout is a timeout: an operation that has to wait for its peer times out at once, exactly as the async operation
            # under tokio::time::timeout(Duration::ZERO, ..) does (only `None` means "no timeout")
            for i in range(3 if tier == "quick" else 20):
                while True:
                    ops, slave = gen_ops(rng, proto, rng.randrange(0, 3), False)
                    if not any(o.endswith(" s") or o.startswith("timeout") for o in ops):
                        break
                if ops and ops[-1].endswith(" c"):
                    ops = ops[:-1]
                req = ("RHR", rng.randrange(65536), rng.randrange(1, 5))
                ops += ["timeout 0", "%s %s s" % (rng.choice(["call", "typed"]), mb.show_req(req))]
                tmo = rng.choice(["-", "1000"])       # zero only for the operation that meets a silent peer: with a reply on its way a zero timeout is a race
                body = "%s %s %s %s" % (proto, tmo, "-" if slave is None else str(slave), " ; ".join(ops))
                gid = "%szero%d" % (proto, i)
                cs.append(Case("SYNC " + body, {"g": gid, "mode": "sync", "nops": len(ops), "zero": True}))
                cs.append(Case("ASYNC " + body, {"g": gid, "mode": "async", "nops": len(ops), "zero": True}))
        return cs

    @staticmethod
    def norm(case, s):
        s = (s or "").replace("ok t=max", "ok t=-")
        if " rtu " in case.line[:12]:
            # a pseudo-terminal whose other end was closed answers a read with EIO (io::ErrorKind::Uncategorized) or with end of file
            # (which the client reports as BrokenPipe), depending on when the close is noticed: both mean "the peer hung up"
            s = s.replace("T:Uncategorized", "T:BrokenPipe")
        return s

    def project(self, case, s):
        return self.norm(case, s)

    def extra_checks(self, cases, tier, rng):
        by = {}
        for c in cases:
            by.setdefault(c.meta["g"], {})[c.meta["mode"]] = c
        out = []
        for g, d in by.items():
            if "sync" in d and "async" in d and self.norm(d["sync"], d["sync"].impl) != self.norm(d["async"], d["async"].impl):
                out.append((d["sync"], "synchronous and asynchronous client differ: sync=%s | async=%s" % ((d["sync"].impl or "")[:150], (d["async"].impl or "")[:150])))
        return out

    def oracle(self, c):
        r = c.impl or ""
        if "PANIC" in r or "CRASH" in r or "NORESULT" in r or r.startswith("CONNECT") or r.startswith("ERR"):
            return "harness/client failure: %s" % r[:80]
        if "timing_ok=0" in r:
            return "a synchronous operation blocked far beyond its timeout"
        return None

    def nontrivial(self, c):
        return c.meta["nops"] >= 2
